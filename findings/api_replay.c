#include <stdio.h>
#include <stdlib.h>
#include <string.h>
#include <vorbis/codec.h>
int main(int argc,char**argv){ FILE*f=fopen(argv[1],"rb"); unsigned char *p[8]; unsigned n[8]; int k=0;
  while(k<8 && fread(&n[k],4,1,f)==1){ p[k]=malloc(n[k]+1); fread(p[k],1,n[k],f); k++; }
  vorbis_info vi; vorbis_comment vc; vorbis_dsp_state vd; vorbis_block vb; vorbis_info_init(&vi); vorbis_comment_init(&vc);
  for(int i=0;i<3;i++){ ogg_packet op={p[i],n[i],i==0,0,0,i}; int r=vorbis_synthesis_headerin(&vi,&vc,&op); printf("headerin %d -> %d\n",i,r); if(r)return 1; }
  int r=vorbis_synthesis_init(&vd,&vi); printf("synthesis_init -> %d\n",r); fflush(stdout); if(r) { r=vorbis_synthesis_init(&vd,&vi); printf("synthesis_init (retry) -> %d\n",r); fflush(stdout); if(r)return 1; }
  vorbis_block_init(&vd,&vb);
  for(int i=3;i<k;i++){ ogg_packet op={p[i],n[i],0,0,-1,i}; r=vorbis_synthesis(&vb,&op); printf("synthesis %d -> %d\n",i,r); fflush(stdout); if(!r)vorbis_synthesis_blockin(&vd,&vb); float **pcm; int s=vorbis_synthesis_pcmout(&vd,&pcm); printf("  samples %d\n",s); vorbis_synthesis_read(&vd,s);} 
  vorbis_block_clear(&vb); vorbis_dsp_clear(&vd); vorbis_comment_clear(&vc); vorbis_info_clear(&vi); puts("done"); return 0; }
