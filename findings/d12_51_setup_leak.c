/* API-level demonstration of finding D12 (see known_findings.txt). Build: findings/run_vf.sh D12 [repo]   (LeakSanitizer: exit 1 = leak) */
#include <stdio.h>
#include "vorbis/codec.h"
#include "vorbis/vorbisenc.h"
int main(void){
  vorbis_info vi; int r;
  vorbis_info_init(&vi); r=vorbis_encode_init_vbr(&vi,6,44100,.4f); printf("5.1 quality set-up: %d\n",r); vorbis_info_clear(&vi);
  vorbis_info_init(&vi); r=vorbis_encode_init(&vi,6,48000,-1,256000,-1); printf("5.1 managed set-up: %d\n",r); vorbis_info_clear(&vi);
  return 0; }
