/* API-level demonstration of finding D20 (see known_findings.txt). Build: findings/run_vf.sh D20 [repo] */
#include <stdio.h>
#include <stdlib.h>
#include <string.h>
#include <math.h>
#include <unistd.h>
#include <ogg/ogg.h>
#include "vorbis/codec.h"
#include "vorbis/vorbisenc.h"
#include "vorbis/vorbisfile.h"

typedef struct { unsigned char *d; size_t len, cap, pos; } membuf;
static void mb_add(membuf *m,const void *p,size_t n){
  if(m->len+n>m->cap){ m->cap=(m->len+n)*2+4096; m->d=realloc(m->d,m->cap); }
  memcpy(m->d+m->len,p,n); m->len+=n;
}
static size_t mb_read(void *ptr,size_t sz,size_t nm,void *ds){
  membuf *m=ds; size_t n=sz*nm; if(n>m->len-m->pos)n=m->len-m->pos;
  memcpy(ptr,m->d+m->pos,n); m->pos+=n; return n/sz;
}
static int mb_seek(void *ds,ogg_int64_t off,int wh){
  membuf *m=ds; ogg_int64_t p;
  if(wh==SEEK_SET)p=off; else if(wh==SEEK_CUR)p=(ogg_int64_t)m->pos+off; else p=(ogg_int64_t)m->len+off;
  if(p<0||p>(ogg_int64_t)m->len)return -1;
  m->pos=(size_t)p; return 0;
}
static long mb_tell(void *ds){ return (long)((membuf*)ds)->pos; }
static ov_callbacks mb_cb={mb_read,mb_seek,NULL,mb_tell};

static unsigned int rs=12345;
static float frand(void){ rs=rs*1103515245u+12345u; return ((rs>>8)&0xffff)/32768.f-1.f; }

static void encode_link(membuf *out,long nsamp,int ch,long rate,float q,int serial){
  vorbis_info vi; vorbis_comment vc; vorbis_dsp_state vd; vorbis_block vb;
  ogg_stream_state os; ogg_page og; ogg_packet op;
  long done=0; int eos=0;
  vorbis_info_init(&vi);
  if(vorbis_encode_init_vbr(&vi,ch,rate,q)){fprintf(stderr,"encoder init failed\n");exit(3);}
  vorbis_comment_init(&vc);
  vorbis_analysis_init(&vd,&vi); vorbis_block_init(&vd,&vb);
  ogg_stream_init(&os,serial);
  { ogg_packet h,hc,hb; vorbis_analysis_headerout(&vd,&vc,&h,&hc,&hb);
    ogg_stream_packetin(&os,&h);ogg_stream_packetin(&os,&hc);ogg_stream_packetin(&os,&hb);
    while(ogg_stream_flush(&os,&og)){mb_add(out,og.header,og.header_len);mb_add(out,og.body,og.body_len);} }
  while(!eos){
    long n=nsamp-done; if(n>1024)n=1024;
    if(n<=0) vorbis_analysis_wrote(&vd,0);
    else{
      float **b=vorbis_analysis_buffer(&vd,n); long i; int c;
      for(i=0;i<n;i++){ long t=done+i;
        for(c=0;c<ch;c++){
          float v=0.3f*sinf(t*0.05f*(c+1))+0.05f*frand();
          if((t%5000)<40) v+=0.6f*frand();
          b[c][i]=v; } }
      vorbis_analysis_wrote(&vd,n); done+=n;
    }
    while(vorbis_analysis_blockout(&vd,&vb)==1){
      vorbis_analysis(&vb,NULL); vorbis_bitrate_addblock(&vb);
      while(vorbis_bitrate_flushpacket(&vd,&op)){
        ogg_stream_packetin(&os,&op);
        while(!eos){
          if(!ogg_stream_pageout(&os,&og))break;
          mb_add(out,og.header,og.header_len);mb_add(out,og.body,og.body_len);
          if(ogg_page_eos(&og))eos=1;
        }
      }
    }
  }
  ogg_stream_clear(&os);vorbis_block_clear(&vb);vorbis_dsp_clear(&vd);vorbis_comment_clear(&vc);vorbis_info_clear(&vi);
}


/* D20: ov_halfrate() toggled on a handle whose decoder is already running (INITSET).
   Reference = a second handle on the same bytes with half-rate switched on right after open and seeked to the same position.
   Also the refusing path: link 1 has 64-sample short blocks (8 kHz q... not producible by the bundled encoder, so only the
   accepting path is shown here; the refusing path is shown by the harness F-halfrate). */
static long drain(OggVorbis_File *vf,float *buf,long max){ long tot=0,r; float **pcm; while(tot<max && (r=ov_read_float(vf,&pcm,(int)(max-tot>4096?4096:max-tot),NULL))>0){ for(long i=0;i<r;i++)buf[tot+i]=pcm[0][i]; tot+=r; } return tot; }
int main(void){
  membuf a={0},b={0}; OggVorbis_File va,vb; static float ra[60000],rb[60000],sink[8192]; int bad=0;
  alarm(100);
  encode_link(&a,60000,1,44100,0.4f,1111);
  b=a; b.pos=0; a.pos=0;
  if(ov_open_callbacks(&a,&va,NULL,0,mb_cb)||ov_open_callbacks(&b,&vb,NULL,0,mb_cb)){printf("open failed\n");return 3;}
  /* handle A: play 10000 samples at full rate, then switch to half rate */
  long got=drain(&va,sink,8000); ogg_int64_t p=ov_pcm_tell(&va);
  if(ov_halfrate(&va,1)){printf("halfrate refused\n");return 3;}
  ogg_int64_t pa=ov_pcm_tell(&va);
  /* handle B: half rate from the start, sample seek to the same (even) position */
  if(ov_halfrate(&vb,1)||ov_pcm_seek(&vb,pa)){printf("reference setup failed\n");return 3;}
  long na=drain(&va,ra,20000), nb=drain(&vb,rb,20000);
  printf("full-rate samples read first: %ld, position %ld, after toggle %ld; then A delivered %ld, reference %ld\n",got,(long)p,(long)pa,na,nb);
  if(pa>p || pa<p-1){ printf("BROKEN: position moved from %ld to %ld by the toggle\n",(long)p,(long)pa); bad=1; }
  if(na!=nb){ printf("BROKEN: sample count after the toggle differs from the half-rate reference\n"); bad=1; }
  long d=0; for(long i=0;i<na&&i<nb;i++) if(ra[i]!=rb[i]) d++;
  if(d){ printf("BROKEN: %ld of %ld samples after a mid-stream ov_halfrate(1) differ from the half-rate decode at the same position\n",d,na<nb?na:nb); bad=1; }
  else printf("audio after the toggle is bit-identical to the half-rate reference\n");
  return bad;
}
