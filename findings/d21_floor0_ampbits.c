/* API-level demonstration of finding D21 (see known_findings.txt): floor 0 with a 31/32-bit amplitude field.
 * Two hand-built spec-legal streams (mono, 64-sample blocks, floor type 0, residue type 1) that differ ONLY in the width of the
 * floor amplitude field: 16 bits with value 0x0400, and 32 bits with value 0x04000400.  Spec 6.2.2/6.2.3: the amplitude is
 * value/(2^bits-1)*offset, and 0x0400/65535 == 0x04000400/(2^32-1) exactly, so the two decodes must agree up to float rounding.
 * exit 0: they agree and are finite; exit 1: they do not (defect shows).  Build: findings/run_vf.sh D21 [repo] */
#include <stdio.h>
#include <stdlib.h>
#include <string.h>
#include <math.h>
#include <unistd.h>
#include <ogg/ogg.h>
#include <vorbis/codec.h>
extern long _float32_pack(float val);
#define NAUDIO 12
typedef struct { unsigned char *data; long bytes; } pkt;
static pkt P[3+NAUDIO];

static void keep(pkt *k,oggpack_buffer *o){
  k->bytes=oggpack_bytes(o);
  k->data=calloc(k->bytes+1,1);
  memcpy(k->data,oggpack_get_buffer(o),k->bytes);
  oggpack_writeclear(o);
}
static void magic(oggpack_buffer *o,int type){
  const char *v="vorbis"; oggpack_write(o,type,8); while(*v)oggpack_write(o,*v++,8);
}
/* unordered codebook; len[i]==0 means "unused entry" */
static void book(oggpack_buffer *o,int dim,int entries,const int *len,int maptype,
                 float qmin,float qdelta,int qbits,int nvals,const int *vals){
  int i,sparse=0;
  for(i=0;i<entries;i++)if(!len[i])sparse=1;
  oggpack_write(o,0x564342,24); oggpack_write(o,dim,16); oggpack_write(o,entries,24);
  oggpack_write(o,0,1); oggpack_write(o,sparse,1);
  for(i=0;i<entries;i++){
    if(sparse){ oggpack_write(o,len[i]!=0,1); if(len[i])oggpack_write(o,len[i]-1,5); }
    else oggpack_write(o,len[i]-1,5);
  }
  oggpack_write(o,maptype,4);
  if(maptype){
    oggpack_write(o,_float32_pack(qmin),32); oggpack_write(o,_float32_pack(qdelta),32);
    oggpack_write(o,qbits-1,4); oggpack_write(o,0,1);
    for(i=0;i<nvals;i++)oggpack_write(o,vals[i],qbits);
  }
}

static void build_stream(int AMPBITS,unsigned long AMPRAW){
  oggpack_buffer o; int i,j;
  static const int four[4]={2,2,2,2}, two[2]={1,1}, v01[2]={0,1};
  unsigned lcg=4242;

  /* identification: 1ch, 44100Hz, blocksizes 64/64 */
  oggpack_writeinit(&o); magic(&o,1);
  oggpack_write(&o,0,32); oggpack_write(&o,1,8); oggpack_write(&o,44100,32);
  oggpack_write(&o,0,32); oggpack_write(&o,0,32); oggpack_write(&o,0,32);
  oggpack_write(&o,6,4); oggpack_write(&o,6,4); oggpack_write(&o,1,1);
  keep(&P[0],&o);
  /* comment: empty */
  oggpack_writeinit(&o); magic(&o,3);
  oggpack_write(&o,0,32); oggpack_write(&o,0,32); oggpack_write(&o,1,1);
  keep(&P[1],&o);
  /* setup */
  oggpack_writeinit(&o); magic(&o,5);
  oggpack_write(&o,3-1,8);
  book(&o,2,4,four,1,0.2f,0.6f,1,2,v01);     /* 0: floor0 LSP book, 4 entries on a 2x2 lattice */
  book(&o,1,2,two,0,0,0,0,0,NULL);           /* 1: residue phrase book              */
  book(&o,1,2,two,1,-1.f,2.f,1,2,v01);       /* 2: residue value book {-1,+1}       */
  oggpack_write(&o,0,6); oggpack_write(&o,0,16);                 /* time placeholder */
  oggpack_write(&o,0,6); oggpack_write(&o,0,16);                 /* 1 floor, type 0  */
  oggpack_write(&o,4,8); oggpack_write(&o,44100,16); oggpack_write(&o,32,16);
  oggpack_write(&o,AMPBITS,6); oggpack_write(&o,100,8); oggpack_write(&o,0,4); oggpack_write(&o,0,8);
  oggpack_write(&o,0,6); oggpack_write(&o,1,16);                 /* 1 residue, type 1 */
  oggpack_write(&o,0,24); oggpack_write(&o,32,24); oggpack_write(&o,32-1,24);
  oggpack_write(&o,0,6); oggpack_write(&o,1,8);
  oggpack_write(&o,1,3); oggpack_write(&o,0,1); oggpack_write(&o,2,8);
  oggpack_write(&o,0,6); oggpack_write(&o,0,16);                 /* 1 mapping, type 0 */
  oggpack_write(&o,0,1); oggpack_write(&o,0,1); oggpack_write(&o,0,2);
  oggpack_write(&o,0,8); oggpack_write(&o,0,8); oggpack_write(&o,0,8);
  oggpack_write(&o,0,6);                                         /* 1 mode */
  oggpack_write(&o,0,1); oggpack_write(&o,0,16); oggpack_write(&o,0,16); oggpack_write(&o,0,8);
  oggpack_write(&o,1,1);
  keep(&P[2],&o);
  /* audio packets */
  for(i=0;i<NAUDIO;i++){
    oggpack_writeinit(&o);
    oggpack_write(&o,0,1);                  /* audio packet; 1 mode -> 0 mode bits */
    oggpack_write(&o,AMPRAW,AMPBITS);       /* floor0 amplitude (non-zero)         */
    oggpack_write(&o,0,1);                  /* floor0 book number                  */
    oggpack_write(&o,(i&3),2); oggpack_write(&o,((i>>1)&3),2);   /* two LSP vectors */
    oggpack_write(&o,0,1);                  /* residue partition class word        */
    for(j=0;j<32;j++){ lcg=lcg*1103515245u+12345u; oggpack_write(&o,(lcg>>16)&1,1); }
    keep(&P[3+i],&o);
  }
}

typedef struct { float s[64*(NAUDIO+2)]; long n; int errors; } pcmout;

static void decode(pcmout *out){
  vorbis_info vi; vorbis_comment vc; vorbis_dsp_state vd; vorbis_block vb; ogg_packet op;
  int i,j;
  memset(out,0,sizeof(*out));
  vorbis_info_init(&vi); vorbis_comment_init(&vc);
  for(i=0;i<3;i++){
    memset(&op,0,sizeof(op));
    op.packet=P[i].data; op.bytes=P[i].bytes; op.b_o_s=(i==0); op.packetno=i;
    if((j=vorbis_synthesis_headerin(&vi,&vc,&op))){ fprintf(stderr,"header %d rejected (%d)\n",i,j); out->errors+=1000; goto done; }
  }
  if(vorbis_synthesis_init(&vd,&vi)){ out->errors+=1000; goto done; }
  vorbis_block_init(&vd,&vb);
  for(i=3;i<3+NAUDIO;i++){
    float **pcm; int n;
    memset(&op,0,sizeof(op));
    op.packet=P[i].data; op.bytes=P[i].bytes; op.granulepos=-1; op.packetno=i;
    if(vorbis_synthesis(&vb,&op)==0) vorbis_synthesis_blockin(&vd,&vb); else out->errors++;
    while((n=vorbis_synthesis_pcmout(&vd,&pcm))>0){
      for(j=0;j<n;j++)if(out->n<(long)(sizeof(out->s)/sizeof(float)))out->s[out->n++]=pcm[0][j];
      vorbis_synthesis_read(&vd,n);
    }
  }
  vorbis_block_clear(&vb); vorbis_dsp_clear(&vd);
done:
  vorbis_comment_clear(&vc); vorbis_info_clear(&vi);
}


int main(void){
  static pcmout a,b; long i; int bad=0; double maxrel=0; alarm(60);
  build_stream(16,0x0400UL); decode(&a);
  build_stream(32,0x04000400UL); decode(&b);
  printf("16-bit amplitude field: %ld samples, %d packet errors; 32-bit field: %ld samples, %d packet errors\n",a.n,a.errors,b.n,b.errors);
  if(a.errors||!a.n){ printf("reference stream did not decode\n"); return 3; }
  if(b.errors||b.n!=a.n){ printf("BROKEN: the 32-bit stream is rejected or yields a different sample count\n"); return 1; }
  { int nz=0; for(i=0;i<a.n;i++) if(a.s[i]!=0.f) nz++; if(!nz){ printf("vacuous: silence\n"); return 3; } }
  for(i=0;i<a.n;i++){
    if(!isfinite(b.s[i])){ if(bad<3) printf("BROKEN: sample %ld of the 32-bit stream is %g (16-bit stream: %g)\n",i,b.s[i],a.s[i]); bad++; continue; }
    double d=fabs((double)a.s[i]-b.s[i]), m=fabs((double)a.s[i])+1e-9; if(d/m>maxrel) maxrel=d/m;
    if(d>1e-4*m+1e-7){ if(bad<3) printf("BROKEN: sample %ld differs: %g vs %g\n",i,a.s[i],b.s[i]); bad++; }
  }
  printf("%d of %ld samples disagree (largest relative difference among finite samples %.3g)\n",bad,a.n,maxrel);
  return bad?1:0;
}
