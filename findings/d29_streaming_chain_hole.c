/* API-level demonstration of finding D29 (see known_findings.txt). Build: findings/run_vf.sh D28 [repo] */
#include <stdio.h>
#include <stdlib.h>
#include <string.h>
#include <math.h>
#include <unistd.h>
#include <ogg/ogg.h>
#include "vorbis/codec.h"
#include "vorbis/vorbisenc.h"
#include "vorbis/vorbisfile.h"

typedef struct { unsigned char *d; size_t len, cap, pos; } membuf;
static void mb_add(membuf *m,const void *p,size_t n){
  if(m->len+n>m->cap){ m->cap=(m->len+n)*2+4096; m->d=realloc(m->d,m->cap); }
  memcpy(m->d+m->len,p,n); m->len+=n;
}
static size_t mb_read(void *ptr,size_t sz,size_t nm,void *ds){
  membuf *m=ds; size_t n=sz*nm; if(n>m->len-m->pos)n=m->len-m->pos;
  memcpy(ptr,m->d+m->pos,n); m->pos+=n; return n/sz;
}
static int mb_seek(void *ds,ogg_int64_t off,int wh){
  membuf *m=ds; ogg_int64_t p;
  if(wh==SEEK_SET)p=off; else if(wh==SEEK_CUR)p=(ogg_int64_t)m->pos+off; else p=(ogg_int64_t)m->len+off;
  if(p<0||p>(ogg_int64_t)m->len)return -1;
  m->pos=(size_t)p; return 0;
}
static long mb_tell(void *ds){ return (long)((membuf*)ds)->pos; }
static ov_callbacks mb_cb={mb_read,mb_seek,NULL,mb_tell};

static unsigned int rs=12345;
static float frand(void){ rs=rs*1103515245u+12345u; return ((rs>>8)&0xffff)/32768.f-1.f; }

static void encode_link(membuf *out,long nsamp,int ch,long rate,float q,int serial){
  vorbis_info vi; vorbis_comment vc; vorbis_dsp_state vd; vorbis_block vb;
  ogg_stream_state os; ogg_page og; ogg_packet op;
  long done=0; int eos=0;
  vorbis_info_init(&vi);
  if(vorbis_encode_init_vbr(&vi,ch,rate,q)){fprintf(stderr,"encoder init failed\n");exit(3);}
  vorbis_comment_init(&vc);
  vorbis_analysis_init(&vd,&vi); vorbis_block_init(&vd,&vb);
  ogg_stream_init(&os,serial);
  { ogg_packet h,hc,hb; vorbis_analysis_headerout(&vd,&vc,&h,&hc,&hb);
    ogg_stream_packetin(&os,&h);ogg_stream_packetin(&os,&hc);ogg_stream_packetin(&os,&hb);
    while(ogg_stream_flush(&os,&og)){mb_add(out,og.header,og.header_len);mb_add(out,og.body,og.body_len);} }
  while(!eos){
    long n=nsamp-done; if(n>1024)n=1024;
    if(n<=0) vorbis_analysis_wrote(&vd,0);
    else{
      float **b=vorbis_analysis_buffer(&vd,n); long i; int c;
      for(i=0;i<n;i++){ long t=done+i;
        for(c=0;c<ch;c++){
          float v=0.3f*sinf(t*0.05f*(c+1))+0.05f*frand();
          if((t%5000)<40) v+=0.6f*frand();
          b[c][i]=v; } }
      vorbis_analysis_wrote(&vd,n); done+=n;
    }
    while(vorbis_analysis_blockout(&vd,&vb)==1){
      vorbis_analysis(&vb,NULL); vorbis_bitrate_addblock(&vb);
      while(vorbis_bitrate_flushpacket(&vd,&op)){
        ogg_stream_packetin(&os,&op);
        while(!eos){
          if(!ogg_stream_pageout(&os,&og))break;
          mb_add(out,og.header,og.header_len);mb_add(out,og.body,og.body_len);
          if(ogg_page_eos(&og))eos=1;
        }
      }
    }
  }
  ogg_stream_clear(&os);vorbis_block_clear(&vb);vorbis_dsp_clear(&vd);vorbis_comment_clear(&vc);vorbis_info_clear(&vi);
}

/* D29: a chained stream read through a NON-seekable source.  C10: "An intact stream produces no hole or error indications in any of these modes."
   exit 0 = no OV_HOLE and the sample total equals the seekable decode; 1 = holes reported. */
static ov_callbacks stream_cb={mb_read,NULL,NULL,NULL};
static long drain(OggVorbis_File *vf,int *holes,int *errs){
  long tot=0; int sec; float **p;
  for(;;){ long r=ov_read_float(vf,&p,4096,&sec); if(r==0)break; if(r==OV_HOLE){ (*holes)++; continue; } if(r<0){ (*errs)++; break; } tot+=r; }
  return tot; }
int main(void){
  membuf m={0}; int holes=0,errs=0,h2=0,e2=0; OggVorbis_File a,b;
  encode_link(&m,30000,2,44100,0.4f,101); encode_link(&m,25000,1,32000,0.3f,202); encode_link(&m,20000,2,44100,0.5f,303);
  membuf s=m; s.pos=0;
  if(ov_open_callbacks(&s,&a,NULL,0,stream_cb)){ printf("streaming open failed\n"); return 2; }
  long ts=drain(&a,&holes,&errs); ov_clear(&a);
  membuf k=m; k.pos=0;
  if(ov_open_callbacks(&k,&b,NULL,0,mb_cb)){ printf("seekable open failed\n"); return 2; }
  long tk=drain(&b,&h2,&e2); ov_clear(&b);
  printf("streaming: %ld samples, %d holes, %d errors; seekable: %ld samples, %d holes, %d errors\n",ts,holes,errs,tk,h2,e2);
  return (holes||errs||h2||e2||ts!=tk)?1:0;
}
