import sys, struct
class BW:
    def __init__(s): s.bits=[]
    def w(s,v,n):
        for i in range(n): s.bits.append((v>>i)&1)
    def bytes(s):
        b=bytearray((len(s.bits)+7)//8)
        for i,x in enumerate(s.bits):
            if x: b[i>>3]|=1<<(i&7)
        return bytes(b)
def hdr(t):
    b=BW(); b.w(t,8)
    for c in b"vorbis": b.w(c,8)
    return b
def ident(ch=1,rate=44100,bs0=6,bs1=6):
    b=hdr(1); b.w(0,32); b.w(ch,8); b.w(rate,32); b.w(0,32); b.w(0,32); b.w(0,32); b.w(bs0,4); b.w(bs1,4); b.w(1,1); return b.bytes()
def comment():
    b=hdr(3); b.w(0,32); b.w(0,32); b.w(1,1); return b.bytes()
def book(b,dim,lengths,maptype,quantvals=0):
    b.w(0x564342,24); b.w(dim,16); b.w(len(lengths),24)
    b.w(0,1)            # unordered
    b.w(0,1)            # no sparse
    for l in lengths: b.w(l-1,5)
    b.w(maptype,4)
    if maptype:
        b.w(0,32); b.w(0,32); b.w(0,4); b.w(0,1)   # min, delta, q_quant-1, sequence_p
        for i in range(quantvals): b.w(0,1)
def setup(stage_dim,stage_maptype,restype,badtree=False):
    b=hdr(5)
    b.w(2-1,8)                          # 2 books
    book(b,1,[2,2] if badtree else [1],0)
    book(b,stage_dim,[1,1],stage_maptype,0 if stage_dim==0 else 2*stage_dim if stage_maptype==2 else 1)  # book1: stage book
    b.w(0,6); b.w(0,16)                 # time
    b.w(0,6); b.w(1,16)                 # 1 floor, type 1
    b.w(0,5)                            #   partitions 0
    b.w(0,2); b.w(5,4)                  #   mult-1=0, rangebits=5 (n=32)
    b.w(0,6); b.w(restype,16)           # 1 residue
    b.w(0,24); b.w(32,24); b.w(8-1,24); b.w(1-1,6); b.w(0,8)   # begin,end,grouping,partitions,groupbook
    b.w(1,3); b.w(0,1)                  #   cascade: stage 0 only
    b.w(1,8)                            #   booklist[0]=1
    b.w(0,6); b.w(0,16)                 # 1 mapping type 0
    b.w(0,1); b.w(0,1); b.w(0,2)        #   no submaps, no coupling, reserved
    b.w(0,8); b.w(0,8); b.w(0,8)        #   time, floor 0, residue 0
    b.w(0,6)                            # 1 mode
    b.w(0,1); b.w(0,16); b.w(0,16); b.w(0,8)
    b.w(1,1)
    return b.bytes()
def audio():
    b=BW(); b.w(0,1)                    # audio packet, 0 mode bits
    b.w(1,1); b.w(100,8); b.w(100,8)    # floor1 nonzero, two posts
    for i in range(64): b.w(0x55,8)     # plenty of residue bits
    return b.bytes()
stage_dim=int(sys.argv[1]); stage_map=int(sys.argv[2]); restype=int(sys.argv[3])
pk=[ident(),comment(),setup(stage_dim,stage_map,restype,len(sys.argv)>5),audio(),audio()]
with open(sys.argv[4],'wb') as f:
    for p in pk: f.write(struct.pack('<I',len(p))); f.write(p)
