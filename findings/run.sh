#!/bin/bash
# run.sh <finding> [repo]  — API-level replay of a recorded finding against the real library sources (public packet API).
# D1: res0 stage book dim==0 -> SIGFPE in vorbis_synthesis; D2: dim==0 maptype-1 book -> vorbis_synthesis_init hangs;
# D3: second vorbis_synthesis_init after a failed one succeeds -> SIGFPE.  exit 0 = clean run, non-zero = defect shows.
F=$1; R=${2:-/repo}; HERE=$(dirname "$(readlink -f "$0")"); T=$(mktemp -d /var/tmp/finding.XXXXXX); trap 'rm -rf $T' EXIT
SRCS="info.c block.c synthesis.c codebook.c sharedbook.c floor0.c floor1.c res0.c mapping0.c registry.c mdct.c window.c lsp.c lpc.c smallft.c psy.c envelope.c bitrate.c analysis.c lookup.c"
gcc -g -O0 -w -fsanitize=address -I$R/include -I$R/lib $HERE/api_replay.c $(for s in $SRCS; do echo $R/lib/$s; done) -o $T/drv -logg -lm || exit 99
case $F in
 D1) python3 $HERE/mkstream.py 0 2 0 $T/s.bin;;
 D2) python3 $HERE/mkstream.py 0 1 2 $T/s.bin;;
 D3) python3 $HERE/mkstream.py 1 2 2 $T/s.bin badtree;;
 sane) python3 $HERE/mkstream.py 1 2 2 $T/s.bin;;
esac
ASAN_OPTIONS=detect_leaks=0 timeout 10 $T/drv $T/s.bin; rc=$?; echo "rc=$rc"; exit $rc
