#!/bin/bash
# run_vf.sh <finding> [repo] — API-level demonstrations that need the encoder and vorbisfile (whole library, public API only).
# D12: 5.1-channel encoder set-up allocates the shared LFE residue twice and loses the first block (LeakSanitizer).
# D29: a chained stream read through a non-seekable source reports one OV_HOLE per link boundary.
# D28: a chained file with a header-only (zero-sample, no audio page) link in the middle does not open.
# D24: a sample/page seek repeated after a failed seek in the same link fails with OV_EFAULT.
# D23: ov_time_tell after a failed seek (position -1) reads vi[-1] (AddressSanitizer).
# D22: failed open of a chained file leaks the link whose successor could not be opened (LeakSanitizer).
# D21: floor 0 amplitude fields of 31/32 bits (1<<ampbits in int).
# D20: ov_halfrate() toggled while the decoder is running rebuilds the decoder for the OLD setting. exit 0 = clean, 1 = defect shows.
F=$1; R=${2:-/repo}; HERE=$(dirname "$(readlink -f "$0")"); T=$(mktemp -d /var/tmp/finding.XXXXXX); trap 'rm -rf $T' EXIT
case $F in D20) SRC=$HERE/d20_halfrate_toggle.c;; D21) SRC=$HERE/d21_floor0_ampbits.c;; D22) SRC=$HERE/d22_chain_open_leak.c; SAN="-fsanitize=address";; D23) SRC=$HERE/d23_time_tell_unknown_pos.c; SAN="-fsanitize=address";; D24) SRC=$HERE/d24_seek_after_failed_seek.c;; D28) SRC=$HERE/d28_header_only_middle_link.c;; D29) SRC=$HERE/d29_streaming_chain_hole.c;; D12) SRC=$HERE/d12_51_setup_leak.c; SAN="-fsanitize=address";; *) echo "unknown finding"; exit 99;; esac
LIBS=$(ls $R/lib/*.c | grep -v -e psytune.c -e tone.c -e barkmel.c)
gcc -g -O1 -w $SAN -I$R/include -I$R/lib $SRC $LIBS -o $T/drv -logg -lm || exit 99
ASAN_OPTIONS=detect_leaks=1:exitcode=1 timeout 120 $T/drv; rc=$?; echo "rc=$rc"; exit $rc
