/* C01/C02 f1-render — floor 1 curve synthesis (spec 7.2.4 step 2) and the line rasteriser (9.2.7).
 * real code : WHICH=0: render_line; WHICH=1: floor1_inverse2 with render_line cut (records its calls)   (lib/floor1.c)
 * symbolic  : WHICH=0: n <= NMAX, end points x0<x1 concrete per job, y0,y1 in 0..255 (the callers clamp).  WHICH=1: POSTS posts with symbolic distinct positions,
 *             symbolic amplitudes and flags, multiplier 1..4, block half size n = NHALF (16: shorter than the post range 32, 64: longer) (n may be smaller or larger)
 * assert    : WHICH=0: for every x in [x0,min(x1,n)) the curve is multiplied by the table entry of exactly the spec's y(x) (integer
 *             line with error accumulation); nothing outside is touched; table index within 0..255.
 *             WHICH=1: render_line is called for each USED post in ascending x order, from the previous used post, with amplitudes
 *             multiplied by mult and clamped to 0..255; the tail from the last used post to n is multiplied by the last value;
 *             an unused floor zeroes the vector and returns 0.
 */
#include "verif.h"
#include <stdlib.h>
#include <string.h>
#include <ogg/ogg.h>
#include "vorbis/codec.h"
#include "codec_internal.h"
#ifndef WHICH
#define WHICH 0
#endif
#ifndef NMAX
#define NMAX 12
#endif
#ifndef NHALF
#define NHALF 16
#endif
#ifndef X0
#define X0 0
#endif
#ifndef X1
#define X1 8
#endif
#ifndef POSTS
#define POSTS 4
#endif
#define RB 5
#include "qsort_small.c"
#if WHICH==1
#define NCALL (POSTS+1)
static int c_n[NCALL],c_x0[NCALL],c_x1[NCALL],c_y0[NCALL],c_y1[NCALL],g_calls=0; static float *g_out;
#endif
#include "floor1.c"
#if WHICH==1
static void render_line(int n,int x0,int x1,int y0,int y1,float *d){ CHECK(g_calls<NCALL,"at most one line per post"); CHECK(d==g_out,"lines drawn into the output vector");
  CHECK(x0<x1 && y0>=0&&y0<=255&&y1>=0&&y1<=255,"line runs left to right between clamped table indices"); c_n[g_calls]=n;c_x0[g_calls]=x0;c_x1[g_calls]=x1;c_y0[g_calls]=y0;c_y1[g_calls]=y1;g_calls++; }
#endif
int ov_ilog(ogg_uint32_t v){ int ret; for(ret=0;v;ret++)v>>=1; return ret; }
void *_vorbis_block_alloc(vorbis_block *vb,long bytes){ return malloc(bytes>0&&bytes<4096?bytes:1); }
long vorbis_book_decode(codebook *book,oggpack_buffer *b){ return -1; }
void harness(void){
#if WHICH==0
  /* x0,x1 are configuration (-DX0 -DX1): a symbolic divisor dy/adx plus the 256-entry table did not finish; n and both amplitudes are symbolic */
  int n=ND_irange(0,NMAX), x0=X0, x1=X1, y0=ND_irange(0,255), y1=ND_irange(0,255);
  static float d[NMAX]; for(int i=0;i<NMAX;i++) d[i]=1.f;
  float *dd=malloc(sizeof(float)*NMAX); for(int i=0;i<NMAX;i++) dd[i]=1.f;     /* exactly NMAX cells; n<=NMAX is the caller's block half size */
  render_line(n,x0,x1,y0,y1,dd);
  /* spec 9.2.7 */
  int dy=y1-y0, adx=x1-x0, ady=dy<0?-dy:dy, base=dy/adx, sy=dy<0?base-1:base+1, err=0, y=y0; ady-=(base<0?-base:base)*adx;
  for(int x=0;x<NMAX;x++){
    if(x>x0 && x<x1){ err+=ady; if(err>=adx){ err-=adx; y+=sy; } else y+=base; }
    if(x>=x0 && x<x1 && x<n){ CHECK(y>=0&&y<=255,"spec line stays between its end values"); CHECK(dd[x]==FLOOR1_fromdB_LOOKUP[y],"cell x multiplied by the table entry of the spec's y(x)"); if(x>x0+2 && dy<0) WITNESS_AT("falling line, several steps"); }
    else CHECK(dd[x]==1.f,"cells outside [x0,min(x1,n)) untouched"); }
  WITNESS_AT("line drawn"); free(dd);
#else
  vorbis_info vi; codec_setup_info ci; vorbis_dsp_state vd; vorbis_block vb; memset(&vi,0,sizeof vi); memset(&ci,0,sizeof ci); memset(&vd,0,sizeof vd); memset(&vb,0,sizeof vb);
  vi.codec_setup=&ci; vd.vi=&vi; vb.vd=&vd; vb.W=0; int n=NHALF; ci.blocksizes[0]=2*n;   /* configuration (a symbolic length in the memset of the unused path hit CBMC's symbolic-length memset imprecision) */
  static vorbis_info_floor1 info; info.partitions=1; info.partitionclass[0]=0; info.class_dim[0]=POSTS-2; info.mult=ND_irange(1,4); info.postlist[0]=0; info.postlist[1]=1<<RB;
  for(int i=2;i<POSTS;i++){ info.postlist[i]=ND_irange(1,(1<<RB)-1); for(int j=2;j<i;j++) ASSUME(info.postlist[i]!=info.postlist[j]); }
  vorbis_look_floor1 *look=(vorbis_look_floor1 *)floor1_look(&vd,(vorbis_info_floor *)&info);
  int fit[POSTS]; for(int i=0;i<POSTS;i++){ fit[i]=ND_irange(0,0xffff); } fit[0]&=0x7fff; fit[1]&=0x7fff;   /* end posts are always used */
  static float out[64]; g_out=out; for(int i=0;i<64;i++) out[i]=1.f;
  int use=ND_BOOL();
  int *memo=0; if(use) memo=&fit[0];
  int r=floor1_inverse2(&vb,(vorbis_look_floor *)look,memo,out);
  if(!use){ CHECK(r==0 && g_calls==0,"unused floor: 0, nothing drawn"); for(int i=0;i<64;i++) if(i<n) CHECK(out[i]==0.f,"unused floor zeroes the vector"); WITNESS_AT("unused"); floor1_free_look((vorbis_look_floor *)look); return; }
  CHECK(r==1,"used floor returns 1");
  /* spec 7.2.4 step 2 */
  int k=0, lx=0, ly=fit[0]*info.mult; ly=ly<0?0:ly>255?255:ly; int hx=0;
  for(int j=1;j<POSTS;j++){ int cur=look->forward_index[j];
    if(!(fit[cur]&0x8000)){ int hy=(fit[cur]&0x7fff)*info.mult; hy=hy<0?0:hy>255?255:hy; hx=info.postlist[cur];
      CHECK(k<g_calls && c_n[k]==n && c_x0[k]==lx && c_x1[k]==hx && c_y0[k]==ly && c_y1[k]==hy,"one line per used post in ascending x, from the previous used post, amplitudes*mult clamped to the table");
      k++; lx=hx; ly=hy; } }
  CHECK(k==g_calls,"no other line drawn");
  for(int i=0;i<64;i++){ if(i>=hx && i<n) CHECK(out[i]==FLOOR1_fromdB_LOOKUP[ly],"tail after the last used post carries its value"); else CHECK(out[i]==1.f,"cells before the last post are left to render_line"); }
  if(g_calls>=2) WITNESS_AT("two or more lines"); if(hx<n) WITNESS_AT("tail filled"); if(g_calls<POSTS-1) WITNESS_AT("a post skipped");
  floor1_free_look((vorbis_look_floor *)look);
#endif
}
