/* C01/C02 huff-decode — Huffman decode of one codeword (spec 3.2.1 "decode": read bits until a codeword of the tree matches) through the
 * decoder's sorted-codeword tables.
 * real code : vorbis_book_init_decode (sort, dec_index, dec_codelengths, first-level table and search hints), vorbis_book_decode,
 *             decode_packed_entry_number, bitreverse, vorbis_book_clear (lib/sharedbook.c, lib/codebook.c), _make_words
 * config    : -DBOOK k: the codeword length list is configuration (table sizes and allocation sizes depend on it); books include sparse
 *             lists, words longer than the 5-bit first-level table (binary search path), a single-entry book
 * symbolic  : the packet: 0..4 bytes of arbitrary contents (M-bitpack: libogg's read side, bit-exact), bit offset 0..7 of the first codeword
 * assert    : the entry returned is the one whose codeword (assigned per spec: lowest unused, MSb first) equals the next bits of the
 *             packet read LSb first, and exactly its length is consumed; when the packet ends inside the codeword -1 is returned;
 *             memory-safe on every table for every packet; tables released by vorbis_book_clear.
 */
#include "verif.h"
#include <stdlib.h>
#include <string.h>
#include <math.h>
#include <ogg/ogg.h>
#include "vorbis/codec.h"
#include "codec_internal.h"
#include "oggpack.c"
#include "qsort_small.c"
#include "sharedbook.c"
#define ov_ilog ov_ilog_dup_unused
#define bitreverse bitreverse_cb     /* both units define a static bitreverse */
#include "codebook.c"
#undef bitreverse
#undef ov_ilog
#ifndef BOOK
#define BOOK 0
#endif
#if BOOK==0
static char L[]={1,2,3,3};
#elif BOOK==1
static char L[]={2,0,2,0,2,2};                 /* sparse */
#elif BOOK==2
static char L[]={1,2,3,4,5,6,7,7};             /* longer than the first-level table */
#elif BOOK==3
static char L[]={0,1,0};                       /* single-entry extension */
#elif BOOK==4
static char L[]={3,3,3,3,2,2};
#elif BOOK==5
static char L[]={6,6,5,4,3,2,1};               /* descending lengths: long words first */
#elif BOOK==6
static char L[]={4,4,4,4,4,4,4,4,4,4,4,4,4,4,4,4};
#else
static char L[]={1,2,3,4,5,6,7,8,9,10,10};     /* deep tree: binary search over the sorted words */
#endif
#define NE ((int)sizeof L)
void harness(void){
  static_codebook s; memset(&s,0,sizeof s); s.dim=1; s.entries=NE; s.lengthlist=L; s.maptype=0;
  codebook c; int r=vorbis_book_init_decode(&c,&s);
  CHECK(r==0,"a complete tree (or the single-entry book) is accepted");
  /* spec codewords, MSb first, from the validated assignment (huff-words) */
  int used=0; for(int i=0;i<NE;i++) if(L[i]>0) used++;
  ogg_uint32_t *w=_make_words(L,NE,used); CHECK(w!=0,"codewords exist");   /* sparse layout, as the decoder builds it: word k belongs to the k-th USED entry */
  static unsigned char pkt[4]; for(int i=0;i<4;i++) pkt[i]=ND_uchar(); int bytes=ND_irange(0,4), skip=ND_irange(0,7);
  oggpack_buffer b; oggpack_readinit(&b,pkt,bytes); if(skip) oggpack_read(&b,skip);
  long before=oggpack_bits(&b); int avail=bytes*8-(int)before; if(bytes*8<skip) avail=0;
  long e=vorbis_book_decode(&c,&b);
  /* reference: which entry's bit-reversed word matches the next bits (LSb-first packing: first bit read = least significant) */
  unsigned long bits=0; for(int k=0;k<12;k++){ int pos=(int)before+k; if(pos<bytes*8) bits|=((unsigned long)((pkt[pos>>3]>>(pos&7))&1))<<k; }
  int want=-1; for(int i=0,k=0;i<NE;i++) if(L[i]>0){ if(L[i]<=avail && (bits&((1ul<<L[i])-1))==w[k]) want=i; k++; }
  if(NE==3 && BOOK==3){ /* single-entry book: any bit decodes to the entry */ if(avail>=1) want=1; }
  CHECK(e==want,"decoded entry = the entry whose codeword the packet presents next; -1 when the packet ends first");
  if(want>=0){ CHECK(oggpack_bits(&b)==before+L[want],"exactly the codeword is consumed"); if(L[want]>5) WITNESS_AT("codeword longer than the first-level table"); WITNESS_AT("entry decoded"); }
  else WITNESS_AT("end of packet");
  free(w); vorbis_book_clear(&c);
}
