/* C01/C02 huff-words — Huffman codeword assignment (spec 3.2.1) and tree validation.
 * real code : _make_words (lib/sharedbook.c)
 * symbolic  : NE entry lengths 0..LMAX (0 = unused), dense or sparse result layout
 * assert    : memory-safe (result has exactly `sparse count` or n words); a length list that over-subscribes the tree (Kraft sum > 1) is
 *             rejected; an accepted list is complete (Kraft sum == 1) or the single-entry extension (one used entry of length 1);
 *             accepted codewords (un-reversed) fit their length, are pairwise prefix-free, the first used entry gets the all-zero word
 *             and equal-length words increase with the entry number (spec: "lowest valued unused codeword"); the words are returned
 *             bit-reversed for the LSb-first packer; rejected => NULL and nothing leaked.
 */
#include "verif.h"
#include <stdlib.h>
#include <string.h>
#include <math.h>
#include <ogg/ogg.h>
#include "vorbis/codec.h"
#include "codec_internal.h"
#ifndef NE
#define NE 4
#endif
#ifndef LMAX
#define LMAX 4
#endif
#include "sharedbook.c"
static ogg_uint32_t unrev(ogg_uint32_t w,int len){ ogg_uint32_t t=0; for(int j=0;j<LMAX;j++) if(j<len){ t<<=1; t|=(w>>j)&1; } return t; }
void harness(void){
  char l[NE]; int used=0; unsigned kraft=0;
  for(int i=0;i<NE;i++){ l[i]=(char)ND_irange(0,LMAX); if(l[i]){ used++; kraft+=1u<<(LMAX-l[i]); } }
  int sparse=ND_BOOL(); long sc= sparse? used : 0;
  ogg_uint32_t *r=_make_words(l,NE,sc);
  if(kraft>(1u<<LMAX)) CHECK(r==0,"an over-subscribed tree is rejected");
  if(r){
    int single=(used==1);
    CHECK(kraft==(1u<<LMAX) || single || used==0,"an accepted tree is complete, or the single-entry extension, or has no used entry at all");
    if(single){ int k=0; for(int i=0;i<NE;i++) if(l[i]) k=l[i]; CHECK(k==1 || kraft==(1u<<LMAX),"single-entry book: one codeword of length 1"); WITNESS_AT("single-entry book"); }
    ogg_uint32_t w[NE]; int c=0, first=1;
    for(int i=0;i<NE;i++){ if(l[i] || !sc){ w[i]= l[i]? unrev(r[c],l[i]) : 0; c++; } else w[i]=0; }
    for(int i=0;i<NE;i++) if(l[i]){
      CHECK((w[i]>>l[i])==0,"codeword fits its length");
      if(first){ CHECK(w[i]==0,"first used entry gets the all-zero codeword"); first=0; }
      for(int j=i+1;j<NE;j++) if(l[j]){
        int m= l[i]<l[j]? l[i]:l[j];
        CHECK((w[i]>>(l[i]-m))!=(w[j]>>(l[j]-m)),"codewords are prefix-free");
        if(l[i]==l[j]) CHECK(w[i]<w[j],"equal-length codewords increase with the entry number");
      } }
    if(used>=3) WITNESS_AT("accepted with three or more entries");
    free(r);
  } else WITNESS_AT("rejected");
}
