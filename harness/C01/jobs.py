import sys,os
sys.path.insert(0,os.path.dirname(os.path.dirname(os.path.abspath(__file__))))
from vlib.runner import Job
from jobs_lib import other,blk
LEVEL='translation_validation'
def jobs(tier):
    J=[]; q=tier=='quick'
    for w,nm,wit,fn in ((0,'ilog','ilog 32','ov_ilog'),(1,'float32-unpack','float32 negative','_float32_unpack'),(2,'render-point','render_point falling','render_point')):
        J.append(Job('kernel-'+nm,'C01/small.c',defs=['-DWHICH=%d'%w,'-DXMAX=%d'%(255 if q else 2047)],unwind=34,object_bits=10,witnesses=[wit],functions=[fn],
            models=['ldexp: CBMC IEEE built-in'] if w==1 else [],bounds='all 32-bit arguments' if w<2 else 'x coordinates < %d, y values < 256 (floor-1 amplitudes)'%(256 if q else 2048),weight=2,solver='kissat'))
    cfgs=[(1,3,2,1,0),(2,2,2,0,0),(1,3,2,1,1),(2,3,2,0,1)] if q else [(1,3,2,1,0),(2,2,2,0,0),(1,3,2,1,1),(1,4,2,2,0),(2,3,2,0,1),(1,8,3,2,0),(2,2,3,0,0)]
    for mt,en,dm,qv,sp in cfgs:
        J.append(Job('unquant-t%d-e%d-d%d%s'%(mt,en,dm,'-sparse' if sp else ''),'C01/unquant.c',defs=['-DMT=%d'%mt,'-DEN=%d'%en,'-DDM=%d'%dm,'-DQV=%d'%max(qv,1),'-DSPARSE=%d'%sp],
            cuts={'sharedbook.c':['_book_maptype1_quantvals']},unwind=max(en*dm+qv+3,10),unwindset=[('ov_ilog',None,34)],object_bits=10,
            witnesses=['sequence book','plain book'],functions=['_book_unquantize','_float32_unpack'],models=['contract: lookup1_values given (P-quantvals)'],
            bounds='maptype %d, %d entries x dim %d, lattice size %d, %s; fixed distinct multiplicands, symbolic sequence/sparse flags'%(mt,en,dm,qv,'sparse' if sp else 'dense'),weight=2))
    J+=other('C02',tier,lambda j:j.name.startswith('K-synth') or j.name=='P-quantvals')
    J+=blk(tier,lambda j:j.name.startswith('blockin-step'))[:2 if q else 99]
    return J
CLAIM={'text':'Differential (translation-validation style) bounded checks of the decoder integer/table kernels against references transcribed from the Vorbis I specification: ilog, float32_unpack, lookup1_values, render_point, VQ lookup-table construction (types 1/2, sequence, sparse), the audio packet prologue (mode, window flags), and the per-block sample count / overlap placement of the accumulator.',
 'note':'Each pair (kernel, reference) is one solver equivalence query over all inputs in the stated bounds. NOT covered: Huffman codeword assignment/decode, floor-1 curve rendering (render_line) and unwrap, floor 0 (LSP curve), residue decode order, inverse coupling, IMDCT/window values - i.e. sample VALUES are outside; only the listed kernels and the sample COUNT are decided. Multi-submap/mode combinations are not unrolled.'}
