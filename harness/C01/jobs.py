import sys,os
sys.path.insert(0,os.path.dirname(os.path.dirname(os.path.abspath(__file__))))
from vlib.runner import Job
from jobs_lib import other,blk
LEVEL='translation_validation'
def jobs(tier):
    J=[]; q=tier=='quick'
    for w,nm,wit,fn in ((0,'ilog','ilog 32','ov_ilog'),(1,'float32-unpack','float32 negative','_float32_unpack'),(2,'render-point','render_point falling','render_point')):
        J.append(Job('kernel-'+nm,'C01/small.c',defs=['-DWHICH=%d'%w,'-DXMAX=%d'%(255 if q else 2047)],unwind=34,object_bits=10,witnesses=[wit],functions=[fn],
            models=['ldexp: CBMC IEEE built-in'] if w==1 else [],bounds='all 32-bit arguments' if w<2 else 'x coordinates < %d, y values < 256 (floor-1 amplitudes)'%(256 if q else 2048),weight=2,solver='kissat'))
    cfgs=[(1,3,2,1,0),(2,2,2,0,0),(1,3,2,1,1),(2,3,2,0,1)] if q else [(1,3,2,1,0),(2,2,2,0,0),(1,3,2,1,1),(1,4,2,2,0),(2,3,2,0,1),(1,8,3,2,0),(2,2,3,0,0)]
    for mt,en,dm,qv,sp in cfgs:
        J.append(Job('unquant-t%d-e%d-d%d%s'%(mt,en,dm,'-sparse' if sp else ''),'C01/unquant.c',defs=['-DMT=%d'%mt,'-DEN=%d'%en,'-DDM=%d'%dm,'-DQV=%d'%max(qv,1),'-DSPARSE=%d'%sp],
            cuts={'sharedbook.c':['_book_maptype1_quantvals']},unwind=max(en*dm+qv+3,10),unwindset=[('ov_ilog',None,34)],object_bits=10,
            witnesses=['sequence book','plain book'],functions=['_book_unquantize','_float32_unpack'],models=['contract: lookup1_values given (P-quantvals)'],
            bounds='maptype %d, %d entries x dim %d, lattice size %d, %s; fixed distinct multiplicands, symbolic sequence/sparse flags'%(mt,en,dm,qv,'sparse' if sp else 'dense'),weight=2))
    bv=[(0,2,4,[]),(1,2,5,[]),(2,2,5,[]),(3,3,4,['-DCHN=2','-DOFF=2'])] if q else [(0,2,4,[]),(1,2,5,[]),(2,2,5,[]),(3,3,4,['-DCHN=2','-DOFF=2']),(0,3,7,[]),(2,1,3,[]),(1,3,8,[]),(3,2,6,['-DCHN=3','-DOFF=0']),(0,1,5,[]),(3,1,4,['-DCHN=2','-DOFF=0']),(1,1,4,[]),(2,3,8,[])]
    for var,dim,n,extra in bv:
        J.append(Job('K-bookvec-v%d-d%d-n%d'%(var,dim,n),'C01/k_bookvec.c',defs=['-DVAR=%d'%var,'-DDIM=%d'%dim,'-DN=%d'%n]+extra,cuts={'codebook.c':['decode_packed_entry_number']},unwind=n*2+6,
            witnesses=['book without used entries','all vectors decoded','end of packet inside the vector'],models=['decode_packed_entry_number cut: arbitrary entry sequence / end of packet'],
            functions=[['vorbis_book_decodevs_add','vorbis_book_decodev_add','vorbis_book_decodev_set','vorbis_book_decodevv_add'][var]],
            bounds='book dimension %d, %d scalars%s, 3 used entries or none; adding decoders on concrete distinct tags, decodev_set on symbolic values'%(dim,n,' over 2-3 channels' if var==3 else ''),weight=1))
    f1=[(1,2,1,0),(1,3,2,None),(2,1,0,None)] if q else [(1,2,1,0),(2,1,0,1),(1,3,2,None),(2,2,1,2),(1,4,0,1),(3,1,1,0),(2,2,1,None),(2,3,2,1)]
    for parts,cdim,csub,pl in f1:
        posts=parts*cdim+2
        J.append(Job('K-floor1-p%d-d%d-s%d-%s'%(parts,cdim,csub,'sym' if pl is None else 'L%d'%pl),'C01/k_floor1.c',defs=['-DPARTS=%d'%parts,'-DCDIM=%d'%cdim,'-DCSUB=%d'%csub]+([] if pl is None else ['-DPL=%d'%pl]),unwind=posts+3,unwindset=[('ov_ilog',None,34)],checks=['leak'],object_bits=10,flags=['--no-undefined-shift-check'],
            witnesses=(['decoded','unused or end of packet'] if pl is None else ['decoded, values in range','a post declined (flag unset)','decoded, out-of-range amplitudes','unused or end of packet']),models=['M-bitsrc','M-libc qsort (insertion sort on <=%d pointers)'%posts,'vorbis_book_decode cut: consumes 1..32 bits, arbitrary entry number / end of packet, records the book'],
            functions=['floor1_look','floor1_inverse1','render_point','floor1_free_look'],bounds='%d partition(s) of class 0, dimension %d, %d subclass bits => %d posts; %s; book outputs 0..2^24-1; left shift of a negative room (out-of-range amplitudes) not checked (observation D26)'%(parts,cdim,csub,posts,'positions symbolic, distinct, < 64 (look tables, book order, memory safety)' if pl is None else 'concrete post layout %d, value oracle'%pl),weight=3))
    for x0,x1,nm in ([(0,8,9),(2,8,8)] if q else [(0,8,9),(2,8,8),(0,16,16),(5,6,8),(1,13,10),(0,12,12),(3,10,12)]):   # composite lengths: err==adx occurs inside the line
        J.append(Job('f1-line-%d-%d'%(x0,x1),'C01/f1_render.c',defs=['-DWHICH=0','-DNMAX=%d'%nm,'-DX0=%d'%x0,'-DX1=%d'%x1],unwind=nm+2,witnesses=['line drawn']+(['falling line, several steps'] if x1-x0>3 else []),functions=['render_line'],models=[],
            bounds='line from x=%d to x=%d, n 0..%d, both amplitudes 0..255'%(x0,x1,nm),weight=2))
    for posts,nh in ([(4,16),(4,64)] if q else [(4,16),(4,64),(5,16),(5,64)]):
        J.append(Job('f1-curve-%d-n%d'%(posts,nh),'C01/f1_render.c',defs=['-DWHICH=1','-DPOSTS=%d'%posts,'-DNHALF=%d'%nh],cuts={'floor1.c':['render_line']},unwind=66,object_bits=10,witnesses=['two or more lines','a post skipped','unused']+(['tail filled'] if nh>32 else []),
            functions=['floor1_inverse2','floor1_look'],models=['M-libc qsort (insertion sort)','render_line cut: records its calls (its own job: f1-line)'],bounds='%d posts at distinct symbolic positions < 32, block half size %d, symbolic amplitudes/flags, mult 1..4'%(posts,nh),weight=2))
    for ty,c0,c1,ch2 in ([(0,1,3,0),(1,3,2,0),(2,1,3,0),(1,1,1,1)] if q else [(0,1,3,0),(1,3,2,0),(2,1,3,0),(1,1,1,1),(0,3,0,0),(1,2,1,0),(2,3,3,0),(1,0,0,0),(0,1,3,1)]):
        J.append(Job('K-res-type%d-c%d%d%s'%(ty,c0,c1,'-2ch' if ch2 else ''),'C01/k_res.c',defs=['-DTYPE=%d'%ty,'-DCAS0=%d'%c0,'-DCAS1=%d'%c1]+(['-DCH2'] if ch2 else []),unwind=5,unwindset=[('ov_ilog',None,34),('harness',r'i<pv',6),('_01inverse',r'i<partvals',6),('res2_inverse',r'i<partvals',6)],object_bits=10,
            witnesses=(['nothing to decode'] if c0+c1==0 else ['ended by end of packet','nothing to decode']+(['two passes over three or more partitions'] if max(c0,c1)>=2 else [])),models=['classification word / partition decoders cut: recorded calls (K-bookvec decides the decoders)','_vorbis_block_alloc = malloc'],
            functions=['res0_look','res%d_inverse'%ty,'_01inverse' if ty<2 else 'res2_inverse','res0_free_look'],bounds='2 classifications with cascades (%d,%d), 2 words per class codeword, partition size 2, %s, begin/end 0..10'%(c0,c1,'2 channels of 4 samples' if (ty==2 or ch2) else '1 channel of 6 samples'),weight=3))
    for ne,lm in ([(4,3)] if q else [(4,3),(5,4),(6,3)]):
        J.append(Job('huff-words-%d-%d'%(ne,lm),'C01/huff_words.c',defs=['-DNE=%d'%ne,'-DLMAX=%d'%lm],unwind=ne+2,unwindset=[('_make_words',r'j<33',34),('_make_words',r'i<33',34),('_make_words',r'for\(j=length;j>0;j--\)',lm+2),('_make_words',r'j<l\[i\]',lm+2),('unrev',None,lm+1),('ov_ilog',None,34)],checks=['leak'],
            witnesses=['single-entry book','accepted with three or more entries','rejected'],functions=['_make_words'],models=[],bounds='%d entries, codeword lengths 0..%d, dense and sparse layouts'%(ne,lm),weight=2))
    for bk in ([0,1,2,3,4,5] if q else [0,1,2,3,4,5,6,7]):
        J.append(Job('huff-decode-b%d'%bk,'C01/huff_decode.c',defs=['-DBOOK=%d'%bk],unwind=18,unwindset=[('_make_words',r'j<33',34),('_make_words',r'i<33',34),('vorbis_book_init_decode',r'i<tabn',257),('vorbis_book_init_decode',r'j<\(1<<',33),('ov_ilog',None,34),('decode_packed_entry_number',r'while\(lok<0',33)],checks=['leak'],object_bits=10,
            witnesses=['entry decoded','end of packet']+(['codeword longer than the first-level table'] if bk in (2,5,7) else []),functions=['vorbis_book_init_decode','vorbis_book_decode','decode_packed_entry_number','vorbis_book_clear','_make_words'],
            models=['M-bitpack (libogg read side, validated against libogg.a)','M-libc qsort (insertion sort)'],bounds='concrete length list %d, every packet of 0..4 bytes, first codeword at bit 0..7'%bk,weight=2))
    J+=other('C02',tier,lambda j:j.name.startswith('K-synth') or j.name=='P-quantvals' or j.name.startswith('K-floor0') or j.name.startswith('P-map') or j.name=='P-setup' or j.name=='S-headerin',fn='_jobs0')   # _jobs0: the C02 jobs proper (C02.jobs itself borrows kernels from this file)
    J+=blk(tier,lambda j:j.name.startswith('blockin-step'))[:2 if q else 99]
    return J
CLAIM={'text':'Differential (translation-validation style) bounded checks of the decoder integer/table kernels against references transcribed from the Vorbis I specification: ilog, float32_unpack, lookup1_values, Huffman codeword assignment and tree validation (_make_words), Huffman decode through the sorted-word tables for 6-8 concrete books and every packet (huff-decode), VQ lookup-table construction (types 1/2, sequence, sparse), placement of VQ vectors by the four vector decoders (residue 0/1/2 layouts, floor 0), residue partition/classification order over passes (K-res), floor-1 neighbour tables, packet decode order, amplitude unwrap (7.2.4 step 1), curve synthesis (step 2) and line rasteriser (render_point, render_line), floor-0 coefficient unwrap and amplitude scale (6.2.2), the audio packet prologue (mode, window flags), and the per-block sample count / overlap placement of the accumulator.',
 'note':'Each pair (kernel, reference) is one solver equivalence query over all inputs in the stated bounds; shapes (book length lists, post layouts, cascades, vector lengths) are configuration, values symbolic; movers/adders run on distinct tags (DESIGN A.2). NOT covered: floor 0 LSP curve (vorbis_lsp_to_curve), inverse coupling, IMDCT and window VALUES (float DSP), mapping0_inverse glue beyond K-map (C11), multi-submap/mode combinations; so sample values are decided only up to the listed integer/table kernels, the sample COUNT is decided.'}
