/* C01/C02/C18 K-bookvec — the four VQ vector decoders place codebook vectors as the specification says.
 * real code : vorbis_book_decodevs_add (residue 0), vorbis_book_decodev_add (residue 1), vorbis_book_decodev_set (floor 0),
 *             vorbis_book_decodevv_add (residue 2)   (lib/codebook.c)
 * cut       : decode_packed_entry_number -> hands out an arbitrary sequence of entry numbers 0..USED-1, or end of packet (-1) at an
 *             arbitrary point (the Huffman walk itself: harness huff-*)
 * symbolic  : the entry sequence, where the packet ends, whether the book has any used entry at all; for decodev_set also every value of the book and the
 *             prior content of the vector (any float of magnitude < 1e30); the adding decoders run on concrete distinct tags
 * config    : -DVAR (0 vs_add, 1 v_add, 2 v_set, 3 vv_add), -DDIM book dimension, -DN vector length, -DCHN channels (vv_add), -DOFF
 * assert    : memory-safe on output vectors of exactly N floats; spec 8.6.2 (format 0: vector k contributes its scalar i to position
 *             i*step+k), 8.6.3/8.6.4 (format 1/2: vectors are laid end to end; format 2 interleaved over the channels), floor 0:
 *             vectors laid end to end REPLACING the content; every cell gets exactly one contribution; a book without used entries
 *             adds nothing and, for decodev_set, still DEFINES every cell as 0 (the caller hands in uninitialised block storage: C18);
 *             end of packet is reported as -1.
 */
#include "verif.h"
#include <stdlib.h>
#include <string.h>
#include <ogg/ogg.h>
#include "vorbis/codec.h"
#include "codec_internal.h"
#ifndef VAR
#define VAR 1
#endif
#ifndef DIM
#define DIM 2
#endif
#ifndef N
#define N 4
#endif
#ifndef CHN
#define CHN 2
#endif
#ifndef OFF
#define OFF 0
#endif
#define USED 3
#define KMAX (N*CHN+2)
static long E[KMAX]; static int g_k=0;
#include "codebook.c"
STIN long decode_packed_entry_number(codebook *book, oggpack_buffer *b){ CHECK(g_k<KMAX,"no more codewords read than scalars requested"); return E[g_k++]; }
int ov_ilog(ogg_uint32_t v){ int ret; for(ret=0;v;ret++)v>>=1; return ret; }
static float nn(void){ float f=ND_float(); ASSUME(f>-1e30f && f<1e30f); return f; }   /* finite, so that sums are never NaN and == compares values */
void harness(void){
  static codebook bk; static float vals[USED*DIM]; oggpack_buffer opb; memset(&opb,0,sizeof opb);
#if VAR==2
  for(int i=0;i<USED*DIM;i++) vals[i]=nn();
#else
  /* adding decoders: data are concrete, pairwise distinct TAGS (value list 1,2,3,.., prior content 100,200,..), so every sum identifies (cell, entry, scalar) uniquely;
     the functions only move and add, the ENTRY SEQUENCE and the end of packet stay symbolic (symbolic floats on both sides of 5+ adders did not finish) */
  for(int i=0;i<USED*DIM;i++) vals[i]=(float)(i+1);
#define nn_old(i) ((float)(100*((i)+1)))
#endif
  bk.dim=DIM; bk.entries=5; bk.used_entries=ND_BOOL()?USED:0; bk.valuelist=vals;
  for(int k=0;k<KMAX;k++){ E[k]=ND_range(-1,USED-1); }
#if VAR==3
  static float a0[N/CHN+OFF/CHN+1],a1[N/CHN+OFF/CHN+1],a2[N/CHN+OFF/CHN+1]; float *av[3]={a0,a1,a2}; float old[3][N/CHN+OFF/CHN+1];
  int m=(OFF+N)/CHN;      /* per-channel cells OFF/CHN .. m-1 are written; the arrays hold exactly m cells (+ nothing else) */
  float *bv[3]; float *b0=malloc(sizeof(float)*m),*b1=malloc(sizeof(float)*m),*b2=malloc(sizeof(float)*m); bv[0]=b0; bv[1]=b1; bv[2]=b2;
  for(int c=0;c<CHN;c++) for(int i=0;i<m;i++){ old[c][i]=nn_old(c*16+i); bv[c][i]=old[c][i]; }
  long r=vorbis_book_decodevv_add(&bk,bv,OFF,CHN,&opb,N);
  if(!bk.used_entries){ CHECK(r==0,"empty book: nothing to decode"); for(int c=0;c<CHN;c++) for(int i=0;i<m;i++) CHECK(bv[c][i]==old[c][i],"empty book adds nothing"); WITNESS_AT("book without used entries"); }
  else{
    /* reference (spec 8.6.4 via 8.6.3): scalar s of the concatenated vector stream goes to channel s%CHN, cell OFF/CHN + s/CHN */
    int eop=0,k=0,s=0; int total=(m-OFF/CHN)*CHN;
    while(s<total && !eop){ if(E[k]<0){ eop=1; break; } for(int j=0;j<DIM && s<total;j++,s++){ int c=s%CHN, i=OFF/CHN+s/CHN; CHECK(bv[c][i]==old[c][i]+vals[E[k]*DIM+j],"residue 2: scalar j of vector k lands in channel (k*dim+j) mod ch, next free cell; added once"); } k++; }
    CHECK(r==(eop?-1:0),"end of packet reported as -1, otherwise 0"); if(eop) WITNESS_AT("end of packet inside the vector"); else WITNESS_AT("all vectors decoded");
  }
  free(b0); free(b1); free(b2); (void)av;
#else
  float *a=malloc(sizeof(float)*N); float old[N]; for(int i=0;i<N;i++){
#if VAR==2
    old[i]=nn();
#else
    old[i]=nn_old(i);
#endif
    a[i]=old[i]; }
  long r= VAR==0? vorbis_book_decodevs_add(&bk,a,&opb,N) : VAR==1? vorbis_book_decodev_add(&bk,a,&opb,N) : vorbis_book_decodev_set(&bk,a,&opb,N);
  if(!bk.used_entries){
    CHECK(r==0,"empty book: nothing to decode");
    for(int i=0;i<N;i++){ if(VAR==2) CHECK(a[i]==0.f,"floor 0 vector from a book without used entries is all zero, whatever the storage held before"); else CHECK(a[i]==old[i],"empty book adds nothing"); }
    WITNESS_AT("book without used entries");
  }else if(VAR==0){
    int step=N/DIM, eop=0; for(int k=0;k<step;k++) if(E[k]<0) eop=1;
    CHECK(r==(eop?-1:0),"end of packet reported as -1, otherwise 0");
    if(!eop){ for(int i=0;i<DIM;i++) for(int k=0;k<step;k++) CHECK(a[i*step+k]==old[i*step+k]+vals[E[k]*DIM+i],"residue 0: scalar i of vector k lands at i*step+k, added once");
      for(int i=DIM*step;i<N;i++) CHECK(a[i]==old[i],"cells beyond dim*step untouched"); WITNESS_AT("all vectors decoded"); }
    else { for(int i=0;i<N;i++) CHECK(a[i]==old[i],"residue 0 decodes all codewords before touching the vector"); WITNESS_AT("end of packet inside the vector"); }
  }else{
    int eop=0,k=0,s=0;
    while(s<N){ if(E[k]<0){ eop=1; break; } for(int j=0;j<DIM && s<N;j++,s++){ float want=(VAR==2? vals[E[k]*DIM+j] : old[s]+vals[E[k]*DIM+j]); CHECK(a[s]==want,"vectors laid end to end (residue 1: added once; floor 0: replacing)"); } k++; }
    if(VAR==1) for(int i=s;i<N;i++) CHECK(a[i]==old[i],"cells after the end of packet untouched");
    CHECK(r==(eop?-1:0),"end of packet reported as -1, otherwise 0"); if(eop) WITNESS_AT("end of packet inside the vector"); else WITNESS_AT("all vectors decoded");
  }
  free(a);
#endif
}
