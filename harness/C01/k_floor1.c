/* C01/C02 K-floor1 — floor 1 packet decode against the specification (spec 7.2.3 packet decode, 7.2.4 step 1 amplitude synthesis,
 * neighbour search 9.2.4/9.2.5), and its memory safety for arbitrary codebook output.
 * real code : floor1_look (neighbour tables, sort index), floor1_inverse1, render_point, floor1_free_look (lib/floor1.c)
 * cut       : vorbis_book_decode -> returns an arbitrary entry number 0..2^24-1 or end of packet (-1) and records which book was asked
 *             (Huffman walk: its own harness); _vorbis_block_alloc -> constant-size malloc of the checked request; packet bits: M-bitsrc
 * config    : -DPL k: concrete post layout k (value oracle on); without it the positions are symbolic (look tables, book order and memory safety only);
 *             -DPARTS partitions, all of class 0, -DCDIM class dimension, -DCSUB subclass bits => POSTS=PARTS*CDIM+2 (shape is
 *             configuration, every VALUE symbolic: post positions (distinct, < 2^RB), multiplier 1..4, master/sub book numbers incl. -1)
 * assert    : look: posts, quant_q, forward/reverse index sort the posts, lo/hi neighbour = spec definition;
 *             inverse1: request = posts ints; the books consulted are, in order, the master book (if subclass bits) then the sub book
 *             selected by successive CSUB-bit digits of the master value, per partition (7.2.3); unused sub book => 0;
 *             unwrapped values and "step2" flags equal the spec's final_Y/flags whenever the spec values stay within 0..32767
 *             (flag kept in bit 15); end of packet anywhere => NULL; every index within its array for ALL book outputs.
 */
#include "verif.h"
#include <stdlib.h>
#include <string.h>
#include <ogg/ogg.h>
#include "vorbis/codec.h"
#include "codec_internal.h"
#ifndef PARTS
#define PARTS 1
#endif
#ifndef CDIM
#define CDIM 2
#endif
#ifndef CSUB
#define CSUB 1
#endif
#define POSTS (PARTS*CDIM+2)
#define RB 6
#define NBK 4
#define KMAX (PARTS*(CDIM+1)+1)
static long g_y0=-1,g_y1=-1;   /* -1 = the read failed (end of packet): the real code stores that -1 as an amplitude (observation D25) */
#define BITSRC_HOOK(c,v) do{ if((c)==1) g_y0=(v); if((c)==2) g_y1=(v); }while(0)   /* ghost: read 0 = nonzero flag, 1/2 = the two end-post amplitudes */
#include "bitsrc.c"
#include "qsort_small.c"
static int g_book[KMAX]; static long g_val[KMAX]; static int g_k=0; static codebook fb[NBK];
long vorbis_book_decode(codebook *book,oggpack_buffer *b){ long i=book-fb; CHECK(i>=0 && i<NBK,"decode with a book of this stream"); CHECK(g_k<KMAX,"no more codewords than the floor configuration defines");
  /* a codeword takes 1..32 bits; at or beyond the end of the packet the real decoder reports -1 (and libogg's end-of-packet state is sticky) */
  int len=ND_irange(1,32); if(oggpack_look(b,len)<0){ oggpack_adv(b,len); g_book[g_k]=(int)i; g_val[g_k++]=-1; return -1; } oggpack_adv(b,len);
  g_book[g_k]=(int)i; g_val[g_k]=ND_range(-1,(1L<<24)-1); return g_val[g_k++]; }
static void *g_vec;
void *_vorbis_block_alloc(vorbis_block *vb,long bytes){ CHECK(bytes==(long)sizeof(int)*POSTS,"amplitude vector request = posts ints"); g_vec=malloc(sizeof(int)*POSTS); return g_vec; }
#include "floor1.c"
int ov_ilog(ogg_uint32_t v){ int ret; for(ret=0;v;ret++)v>>=1; return ret; }
/* spec 9.2.6 render_point */
static int ref_render_point(int x0,int y0,int x1,int y1,int X){ int dy=y1-y0, adx=x1-x0, ady=dy<0?-dy:dy, err=ady*(X-x0), off=err/adx; return dy<0? y0-off : y0+off; }
void harness(void){
  vorbis_info vi; codec_setup_info ci; vorbis_dsp_state vd; vorbis_block vb; memset(&vi,0,sizeof vi); memset(&ci,0,sizeof ci); memset(&vd,0,sizeof vd); memset(&vb,0,sizeof vb);
  vi.codec_setup=&ci; vd.vi=&vi; vb.vd=&vd; ci.books=NBK; ci.fullbooks=fb;
  static vorbis_info_floor1 info; info.partitions=PARTS; for(int i=0;i<PARTS;i++) info.partitionclass[i]=0;
  info.class_dim[0]=CDIM; info.class_subs[0]=CSUB; info.class_book[0]=ND_irange(0,NBK-1);
  for(int k=0;k<(1<<CSUB);k++) info.class_subbook[0][k]=ND_irange(-1,NBK-1);
  info.mult=ND_irange(1,4); info.postlist[0]=0; info.postlist[1]=1<<RB;
#ifdef PL
  /* value-oracle jobs: post positions are configuration (the prediction divides by position differences: symbolic divisors on both sides did not finish in 10 min) */
  { static const int L[3][8]={{32,16,48,8,56,24,40,4},{10,50,30,5,60,20,45,1},{63,1,62,2,61,3,33,31}}; for(int i=2;i<POSTS;i++) info.postlist[i]=L[PL][i-2]; }
#else
  for(int i=2;i<POSTS;i++){ info.postlist[i]=ND_irange(1,(1<<RB)-1); for(int j=2;j<i;j++) ASSUME(info.postlist[i]!=info.postlist[j]); }   /* V_floor1: distinct posts */
#endif
  vorbis_look_floor1 *look=(vorbis_look_floor1 *)floor1_look(&vd,(vorbis_info_floor *)&info);
  int range= info.mult==1?256: info.mult==2?128: info.mult==3?86:64;
  CHECK(look->posts==POSTS && look->quant_q==range && look->n==(1<<RB) && look->vi==&info,"look: post count, amplitude range (spec 7.2.4 step 1), n");
  for(int i=1;i<POSTS;i++) CHECK(info.postlist[look->forward_index[i-1]]<info.postlist[look->forward_index[i]] && look->reverse_index[look->forward_index[i]]==i,"look: sort index orders the posts; reverse index inverts it");
  for(int i=2;i<POSTS;i++){ int lo=0,hi=1; for(int j=0;j<i;j++){ if(info.postlist[j]<info.postlist[i] && info.postlist[j]>info.postlist[lo]) lo=j; if(info.postlist[j]>info.postlist[i] && info.postlist[j]<info.postlist[hi]) hi=j; }
    CHECK(look->loneighbor[i-2]==lo && look->hineighbor[i-2]==hi,"look: low/high neighbour = greatest lower / least higher EARLIER post (spec 9.2.4, 9.2.5)"); }
  static unsigned char dummy[4]; oggpack_readinit(&vb.opb,dummy,(int)ND_range(0,40));
  int *fit=(int *)floor1_inverse1(&vb,(vorbis_look_floor *)look);
  if(fit){
    /* spec 7.2.3: which book, in which order */
    int Y[POSTS]; Y[0]=(int)g_y0; Y[1]=(int)g_y1; int r=0, off=2;
    for(int p=0;p<PARTS;p++){ long cval=0; if(CSUB>0){ CHECK(r<g_k && g_book[r]==info.class_book[0],"partition starts with its class master book (7.2.3)"); cval=g_val[r++]; }
      for(int j=0;j<CDIM;j++){ int bk=info.class_subbook[0][cval&((1<<CSUB)-1)]; cval>>=CSUB;
        if(bk>=0){ CHECK(r<g_k && g_book[r]==bk,"sub book selected by the next subclass digit of the master value (7.2.3)"); Y[off+j]=(int)g_val[r++]; } else Y[off+j]=0; }
      off+=CDIM; }
    CHECK(r==g_k,"no further codeword is read");
#ifdef PL
    /* spec 7.2.4 step 1 */
    int F[POSTS], flag[POSTS], inrange=1; F[0]=Y[0]; F[1]=Y[1]; flag[0]=flag[1]=1; if(F[0]<0||F[1]<0) inrange=0;
    for(int i=2;i<POSTS && inrange;i++){ int lo=look->loneighbor[i-2], hi=look->hineighbor[i-2];
      int pred=ref_render_point(info.postlist[lo],F[lo],info.postlist[hi],F[hi],info.postlist[i]);
      int val=Y[i], highroom=range-pred, lowroom=pred, room=(highroom<lowroom?highroom:lowroom)*2;
      if(val){ flag[lo]=1; flag[hi]=1; flag[i]=1;
        if(val>=room){ if(highroom>lowroom) F[i]=val-lowroom+pred; else F[i]=pred-val+highroom-1; }
        else { if(val&1) F[i]=pred-((val+1)/2); else F[i]=pred+(val/2); } }
      else{ flag[i]=0; F[i]=pred; }
      if(F[i]<0 || F[i]>32767) inrange=0;      /* outside: the spec leaves the stream's validity to the encoder; only memory safety is claimed */
      if(!inrange) break; }
    if(inrange){ for(int i=0;i<POSTS;i++){ CHECK((fit[i]&0x7fff)==F[i],"unwrapped amplitude = spec final_Y (7.2.4 step 1)"); CHECK(((fit[i]&0x8000)==0)==(flag[i]==1),"step2 flag (bit 15 clear = used) = spec flag"); }
      WITNESS_AT("decoded, values in range"); int any=0; for(int i=2;i<POSTS;i++) if(!flag[i]) any=1; if(any) WITNESS_AT("a post declined (flag unset)"); }
    else WITNESS_AT("decoded, out-of-range amplitudes");
#else
    WITNESS_AT("decoded");
#endif
  } else WITNESS_AT("unused or end of packet");
  if(g_vec) free(g_vec);
  floor1_free_look((vorbis_look_floor *)look);
}
