/* C01/C02 K-res — residue packet decode walks classifications and partitions in the specification's order (spec 8.6.2) and stays
 * inside the vectors.
 * real code : res0_look (partition book table, classification digit map), res0_inverse / res1_inverse (_01inverse), res2_inverse,
 *             res0_free_look (lib/res0.c)
 * cut       : vorbis_book_decode (classification word) -> arbitrary entry or end of packet, recorded; the three vector decoders
 *             (vorbis_book_decodevs_add / decodev_add / decodevv_add: harness K-bookvec) -> record (book, channel vector, offset, length),
 *             CHECK the written range lies inside the vector, return 0 or end of packet; _vorbis_block_alloc -> malloc
 * config    : -DTYPE residue type 0/1/2; 2 classifications, 2 classification words per codeword (classbook dim 2), partition size 2; types 0/1: one
 *             channel of 6 samples, type 2: two channels of 4 samples (interleaved vector of 8); cascades < 4 (2 passes)
 * symbolic  : begin/end (0..10: also beyond the vector), (cascade bytes: configuration -DCAS0 -DCAS1) which book serves which stage,
 *             which channels are marked "do not decode", every classification word, where the packet ends
 * assert    : every partition decode addresses [offset, offset+size) inside [begin, min(end, vector length)); the sequence of codebook
 *             reads is exactly the spec's: per pass, per classification-word group: (pass 0 only) one classification word per decoded
 *             channel, then for each partition of the group, for each decoded channel, the stage book of that channel's classification
 *             digit (most significant digit first) if the cascade has that pass; residue 2: one classification stream over the
 *             interleaved vector; end of packet or an undecodable word ends decoding silently (return 0); nothing leaks.
 */
#include "verif.h"
#include <stdlib.h>
#include <string.h>
#include <ogg/ogg.h>
#include "vorbis/codec.h"
#include "codec_internal.h"
#ifndef TYPE
#define TYPE 1
#endif
#if TYPE==2 || defined(CH2)
#define CHN 2
#define HALF 4
#else
#define CHN 1
#define HALF 6
#endif
#define NBK 4
#ifndef CAS0
#define CAS0 1
#define CAS1 3
#endif
#define RMAX 16
static codebook fb[NBK];
static int r_kind[RMAX], r_book[RMAX], r_ch[RMAX], r_off[RMAX], r_n[RMAX], r_ret[RMAX], g_r=0;
static float V[2*HALF+8]; static float *g_in[2];   /* one object: channel 0 at V, channel 1 at V+HALF+8 (pointer comparisons stay inside one object) */
#define v0 (V)
#define v1 (V+HALF+8)
static void rec(int kind,int book,int ch,int off,int n,int ret){ CHECK(g_r<RMAX,"bounded number of codebook reads"); r_kind[g_r]=kind; r_book[g_r]=book; r_ch[g_r]=ch; r_off[g_r]=off; r_n[g_r]=n; r_ret[g_r]=ret; g_r++; }
long vorbis_book_decode(codebook *book,oggpack_buffer *b){ long v=ND_range(-1,5); rec(0,(int)(book-fb),-1,0,0,(int)v); return v; }
static long part(codebook *book,float *a,int n,int kind){ long d=a-V; CHECK(d>=0 && d<=2*HALF+8,"partition decoded into one of the channel vectors"); int ch= d<HALF+8?0:1;
  int off=(int)(a-(ch?v1:v0)); CHECK(off>=0 && n>=0 && off+n<=HALF,"partition [offset,offset+size) inside the vector"); int ret=ND_BOOL()?0:-1; rec(kind,(int)(book-fb),ch,off,n,ret); return ret; }
long vorbis_book_decodevs_add(codebook *book,float *a,oggpack_buffer *b,int n){ return part(book,a,n,1); }
long vorbis_book_decodev_add(codebook *book,float *a,oggpack_buffer *b,int n){ return part(book,a,n,2); }
long vorbis_book_decodevv_add(codebook *book,float **a,long offset,int ch,oggpack_buffer *b,int n){ CHECK(a==g_in && ch==CHN,"residue 2 decodes into the channel set"); CHECK(offset>=0 && n>=0 && offset+n<=CHN*HALF,"interleaved range inside the channel vectors");
  int ret=ND_BOOL()?0:-1; rec(3,(int)(book-fb),-1,(int)offset,n,ret); return ret; }
void *_vorbis_block_alloc(vorbis_block *vb,long bytes){ CHECK(bytes>=0 && bytes<=64,"classification table request bounded"); return malloc(64); }   /* constant size: a symbolic allocation size exhausts memory in propositional reduction */   /* block-local: released with the block (not tracked here) */
#include "res0.c"
int ov_ilog(ogg_uint32_t v){ int ret; for(ret=0;v;ret++)v>>=1; return ret; }
void harness(void){
  vorbis_info vi; codec_setup_info ci; vorbis_dsp_state vd; vorbis_block vb; memset(&vi,0,sizeof vi); memset(&ci,0,sizeof ci); memset(&vd,0,sizeof vd); memset(&vb,0,sizeof vb);
  vi.codec_setup=&ci; vd.vi=&vi; vb.vd=&vd; ci.books=NBK; ci.fullbooks=fb; vb.pcmend=2*HALF; vi.channels=CHN;
  fb[0].dim=2; fb[0].entries=4;                      /* classbook: 2 classification words per codeword */
  for(int i=1;i<NBK;i++){ fb[i].dim=1; fb[i].entries=2; }
  static vorbis_info_residue0 info; info.begin=ND_irange(0,10); info.end=ND_irange(0,10); info.grouping=2; info.partitions=2; info.partvals=4; info.groupbook=0;
  info.secondstages[0]=CAS0; info.secondstages[1]=CAS1;   /* configuration: res0_look allocates ilog(cascade) pointers per class (symbolic allocation size otherwise) */
  for(int i=0;i<4;i++) info.booklist[i]=ND_irange(1,NBK-1);
  vorbis_look_residue0 *look=(vorbis_look_residue0 *)res0_look(&vd,(vorbis_info_residue *)&info);
  /* reference stage-book table (spec 8.6.1: books listed cascade bit by cascade bit, class by class) */
  int sb[2][2], acc=0, passes=0; for(int c=0;c<2;c++) for(int s=0;s<2;s++){ if(info.secondstages[c]&(1<<s)){ sb[c][s]=info.booklist[acc++]; if(s+1>passes)passes=s+1; } else sb[c][s]=-1; }
  CHECK(look->stages==passes && look->parts==2 && look->partvals==4,"look: passes = highest cascade bit in use; classification map for 2^2 words");
  for(int w=0;w<4;w++) CHECK(look->decodemap[w][0]==w/2 && look->decodemap[w][1]==w%2,"look: classification word digits, most significant first (spec 8.6.2 step: temp % classifications filled from the end)");
  int nz[2]; nz[0]=ND_irange(0,1); nz[1]=ND_irange(0,1); g_in[0]=v0; g_in[1]=v1;

  int ret= TYPE==0? res0_inverse(&vb,(vorbis_look_residue *)look,g_in,nz,CHN) : TYPE==1? res1_inverse(&vb,(vorbis_look_residue *)look,g_in,nz,CHN) : res2_inverse(&vb,(vorbis_look_residue *)look,g_in,nz,CHN);
  CHECK(ret==0,"residue decode never fails: a short packet just ends it");
  /* ---- reference walk (spec 8.6.2) ---- */
  int vec= TYPE==2? CHN*HALF : HALF;                      /* decoded vector length */
  int end= info.end<vec?info.end:vec, n=end-info.begin, r=0, stop=0;
  int dec[2], nd=0; for(int j=0;j<CHN;j++) if(nz[j]) dec[nd++]=j;       /* channels actually decoded, in order (types 0/1 compact them to the front) */
  int streams= TYPE==2? ((nz[0]||nz[1])?1:0) : nd;   /* types 0/1: one channel, or two with -DCH2 (per-channel interleaving of classification words and partitions) */
  if(n>0 && streams>0){
    int pv=n/2, cls[2][8];
    for(int s=0;s<passes && !stop;s++){
      for(int i=0,l=0;i<pv && !stop;l++){
        if(s==0) for(int j=0;j<streams && !stop;j++){ CHECK(r<g_r && r_kind[r]==0 && r_book[r]==0,"pass 0: one classification word per decoded channel, from the class book"); int t=r_ret[r++]; if(t==-1||t>=4){ stop=1; break; } cls[j][2*l]=t/2; cls[j][2*l+1]=t%2; }
        for(int k=0;k<2 && i<pv && !stop;k++,i++) for(int j=0;j<streams && !stop;j++){ int c=cls[j][2*l+k], bk=sb[c][s];
          if(bk>=0){ CHECK(r<g_r && r_book[r]==bk && r_n[r]==2,"partition decoded with the stage book of its classification for this pass, partition size samples");
            if(TYPE==2) CHECK(r_kind[r]==3 && r_off[r]==info.begin+i*2,"residue 2: partition i at begin + i*size of the interleaved vector");
            else CHECK(r_kind[r]==(TYPE==0?1:2) && r_ch[r]==dec[j] && r_off[r]==info.begin+i*2,"residue 0/1: partition i of decoded channel j at begin + i*size, with the format's vector layout");
            if(r_ret[r++]==-1) stop=1; } }
      }
    }
    if(!stop && passes>=2 && pv>=3) WITNESS_AT("two passes over three or more partitions");
    if(stop) WITNESS_AT("ended by end of packet");
  }
  CHECK(r==g_r,"no codebook read beyond the specification's sequence");
  if(g_r==0) WITNESS_AT("nothing to decode");
  res0_free_look((vorbis_look_residue *)look);
}
