/* C01 small kernels vs the Vorbis I specification text.
 * real code : ov_ilog, _float32_unpack (lib/sharedbook.c), render_point (lib/floor1.c)
 * reference : spec 9.2.1 ilog (closed form: number of bits of x), 9.2.2 float32_unpack (mantissa * 2^(exponent-788), with the
 *             implementation's documented +-63 exponent clamp noted as a deviation outside |e|<=63), 9.2.6 render_point
 * symbolic  : all 2^32 arguments of ilog / float32_unpack; render_point: x0<x<x1<2^15, y0,y1 < 2^15 (+ the 0x8000 flag bit)
 */
#include "verif.h"
#include <stdlib.h>
#include <string.h>
#include <math.h>
#include <ogg/ogg.h>
#include "ldexp.c"
#ifndef XMAX
#define XMAX 2047
#endif
#define bitreverse sb_bitreverse
#include "sharedbook.c"
#undef bitreverse
#include "floor1.c"
void harness(void){
  int which=WHICH;   /* configuration: one job per kernel */
  if(which==0){
    unsigned x=ND_uint(); int r=ov_ilog(x);
    CHECK(r>=0 && r<=32,"ilog range");
    CHECK(r==32 || x<(1u<<r),"ilog: x < 2^ilog(x)");
    CHECK(r==0 ? x==0 : x>=(1u<<(r-1)),"ilog: x >= 2^(ilog(x)-1), ilog(0)=0");
    if(r==32) WITNESS_AT("ilog 32");
  }else if(which==1){
    unsigned v=ND_uint(); float f=_float32_unpack((long)v);
    long mant=v&0x1fffff; long e=(long)((v&0x7fe00000u)>>21)-788; int neg=(v&0x80000000u)!=0;
    if(e>=-63 && e<=63){
      /* mantissa * 2^e is exactly representable in double; the result is its float rounding */
      /* the power-of-two scaling itself is ldexp on both sides; the differential is the field extraction (mantissa, sign,
         biased exponent) from the spec text */
      double ref=ldexp((double)(neg?-mant:mant),(int)e);
      CHECK(f==(float)ref,"float32_unpack = mantissa * 2^(exponent-788) (spec 9.2.2)");
      if(neg && mant && e==3) WITNESS_AT("float32 negative");
    }
  }else{
    int x0=ND_irange(0,XMAX),x1=ND_irange(0,XMAX),x=ND_irange(0,XMAX); ASSUME(x0<x && x<x1);
    int y0=ND_irange(0,255),y1=ND_irange(0,255); int f0=ND_irange(0,1)<<15, f1=ND_irange(0,1)<<15;
    int r=render_point(x0,x1,y0|f0,y1|f1,x);
    int dy=y1-y0, adx=x1-x0, ady=dy<0?-dy:dy; long err=(long)ady*(x-x0); long off=err/adx; int ref= dy<0 ? y0-(int)off : y0+(int)off;
    CHECK(r==ref,"render_point (spec 9.2.6)");
    CHECK((r>=y0&&r<=y1)||(r<=y0&&r>=y1),"predicted value lies between the neighbours");
    if(dy<0 && off>0) WITNESS_AT("render_point falling");
  }
}
