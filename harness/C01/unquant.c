/* C01 unquant — VQ lookup table construction vs spec 3.2.1 (lookup type 1 and 2, sequence_p, sparse books).
 * real code : _book_unquantize (lib/sharedbook.c), _float32_unpack
 * cut       : _book_maptype1_quantvals -> QV (configuration; its own harness is P-quantvals)
 * config    : -DMT (maptype 1|2) -DEN (entries) -DDM (dim) -DQV (lookup1_values for type 1) -DSPARSE
 * symbolic  : sequence flag, which entries are used (sparse); multiplicands, minimum and delta are fixed distinct values (with symbolic
 *             floats the equality of the two float terms did not finish in 900 s; the index arithmetic is value-independent)
 * reference : spec 3.2.1 steps for lookup type 1 ("last=0; index_divisor=1; for i in 0..dim-1: multiplicand_offset =
 *             (lookup_offset/index_divisor) mod lookup_values; value[i]=multiplicands[offset]*delta+minimum+last; if sequence_p
 *             last=value[i]; index_divisor*=lookup_values") and type 2; `last` starts at 0 FOR EVERY ENTRY.
 * assert    : every produced value equals the reference term (same float operations in the same order => exact equality),
 *             sparse books are compacted in entry order through the sort index.
 */
#include "verif.h"
#include <stdlib.h>
#include <string.h>
#include <math.h>
#include <ogg/ogg.h>
#include "ldexp.c"
#include "sharedbook.c"
long _book_maptype1_quantvals(const static_codebook *b){ return QV; }
void harness(void){
  static_codebook b; memset(&b,0,sizeof b); b.dim=DM; b.entries=EN; b.maptype=MT; b.q_quant=16; b.q_sequencep=ND_irange(0,1);
  b.q_min=0xe2600007L; b.q_delta=0x62400001L;      /* -3.5 and 0.25 in the packed float32 format (spec 9.2.2) */
  long ql[EN*DM+QV+1]; int nq= MT==1? QV : EN*DM; for(int i=0;i<EN*DM+QV+1;i++) ql[i]=(i*37+11)%97; b.quantlist=ql;   /* concrete distinct multiplicands: the index arithmetic under test does not depend on the values, and float terms then fold to constants */
  char ll[EN]; int used=0; for(int i=0;i<EN;i++){ ll[i]= SPARSE? (char)ND_irange(0,1) : 1; used+=ll[i]?1:0; } b.lengthlist=ll;
  int sm[EN]; for(int i=0;i<EN;i++) sm[i]=i;         /* identity sort index: compaction order = entry order */
  float mindel=_float32_unpack(b.q_min), delta=_float32_unpack(b.q_delta);
  float *r=_book_unquantize(&b, SPARSE?used:EN, SPARSE?sm:(int*)0);
  CHECK(r!=0,"value table produced");
  int count=0;
  for(int j=0;j<EN;j++) if(ll[j]){
    float last=0.f; int indexdiv=1;
    for(int k=0;k<DM;k++){
      long q= MT==1 ? ql[(j/indexdiv)%QV] : ql[j*DM+k];
      float val=(float)q; val=fabs(val)*delta+mindel+last;
      if(b.q_sequencep) last=val;
      float got=r[count*DM+k];
      CHECK(got==val || (got!=got && val!=val),"VQ value = multiplicand*delta+minimum(+running sum within THIS entry only)");
      indexdiv*=QV;
    }
    count++;
  }
  if(b.q_sequencep && used==EN) WITNESS_AT("sequence book");
  if(!b.q_sequencep) WITNESS_AT("plain book");
  free(r);
}
