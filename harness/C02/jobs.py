from vlib.runner import Job
BS=['M-bitsrc (models/bitsrc.c: libogg read-side position accounting, arbitrary data)']
def jobs(tier):
    J=[]
    q=tier=='quick'
    pm=4 if q else 8
    J.append(Job('P-res','C02/p_res.c',defs=['-DPMAX=%d'%pm],unwind=9,unwindset=[('harness',r'i<256',257),('harness',r'j<PMAX',pm+1),('res0_unpack',r'j<info->partitions',pm+1),('res0_unpack',r'j<acc',pm*8+1),('res0_unpack',r'while\(dim>0\)',26),('icount',None,9)],
        checks=['leak'],witnesses=['accepted','accepted with a stage book','rejected'],models=BS,functions=['res0_unpack','res0_free_info','icount'],
        bounds='any packet <= 600 bytes with partitions <= %d (per-partition loops uniform); 3 arbitrary book descriptors shared by the 256 slots'%pm,weight=4,mem_est=(3 if q else 10)))
    eb,st=(3,19) if q else (4,20)
    J.append(Job('P-book','C02/p_book.c',defs=['-DEB=%d'%eb,'-DSTOR=%d'%st],cuts={'sharedbook.c':['_book_maptype1_quantvals']},unwind=eb+2,
        unwindset=[('vorbis_staticbook_unpack',r'for\(i=0;i<s->entries;\)',eb+7),('vorbis_staticbook_unpack',r'i<quantvals',8*(st-17)+1),('ov_ilog',None,34)],checks=['leak'],
        witnesses=['accepted','accepted with quant values','rejected'],models=BS+['contract stub for _book_maptype1_quantvals (proved by P-quantvals)'],
        functions=['vorbis_staticbook_unpack','vorbis_staticbook_destroy'],bounds='any packet <= %d bytes, entries <= %d, ordered books start at length >= 28'%(st,eb),weight=4,mem_est=(6 if q else 20),mem_gb=(12 if q else 40)))
    for e0,e1 in ([(6,7)] if q else [(6,6),(6,7),(8,11)]):
        J.append(Job('K-synth-%d-%d'%(1<<e0,1<<e1),'C02/k_synth.c',defs=['-DE0=%d'%e0,'-DE1=%d'%e1,'-DCH=2'],unwind=66,native_link=['-logg'],
            witnesses=['long block accepted','trackonly accepted','blocksize'],models=['M-bitpack','mapping decode cut to its verdict'],
            functions=['vorbis_synthesis','vorbis_synthesis_trackonly','vorbis_packet_blocksize','vorbis_synthesis_halfrate'],
            bounds='packet 0..2 bytes (prologue is <= 9 bits), modes 1..64, <=2 channels, block sizes (%d,%d)'%(1<<e0,1<<e1),weight=2,mem_est=7))
    nb=2 if q else 3
    J.append(Job('S-init-retry','C02/s_init_retry.c',defs=['-DNB=%d'%nb],unwind=max(nb,2)+2,unwindset=[('vorbis_info_clear',r'i<ci->books',nb+1),('ov_ilog',None,34)],checks=['leak'],object_bits=10,
        witnesses=['first init failed','retry failed'],models=['codebook construction cut to "fails or builds" (contract)','M-dsp constructors'],
        functions=['vorbis_synthesis_init','_vds_shared_init','vorbis_dsp_clear','vorbis_info_clear'],bounds='<=%d codebooks, 1 floor/residue/mapping/mode; two init attempts'%nb,weight=2))
    em,dm=(1024,3) if q else (1<<16,8)
    J.append(Job('P-quantvals','C02/p_quantvals.c',defs=['-DEMAX=%d'%em,'-DDMAX=%d'%dm],unwind=dm+2,unwindset=[('_book_maptype1_quantvals',r'while\(1\)',6)],
        witnesses=['degenerate book','guess corrected'],models=['M-libm: pow returns any value within +-2 of the root'],functions=['_book_maptype1_quantvals'],
        bounds='entries 0..%d, dim 0..%d (incl. 0)'%(em,dm),weight=3,solver='kissat'))
    for ent,guess,dim in ([(2,1,64),(3,3,65)] if q else [(1,1,64),(2,1,64),(2,3,63),(3,2,100),(3,3,65),(2,2,127)]):
        J.append(Job('P-quantvals-highdim-e%d-g%d-d%d'%(ent,guess,dim),'C02/p_quantvals.c',defs=['-DENTC=%d'%ent,'-DGUESSC=%d'%guess,'-DDLO=%d'%dim,'-DDHI=%d'%dim],unwind=132,unwindset=[('_book_maptype1_quantvals',r'while\\(1\\)',6)],
            witnesses=['dim >= 64'] if dim>=64 else [],witness=(dim>=64),models=['libm guess fixed to %d'%guess],functions=['_book_maptype1_quantvals'],
            bounds='concrete configuration entries %d, guess %d, dim %d (with symbolic dim or entries the 64-bit divisions exhaust 12 GB): termination and value where (vals+1)^dim overflows 64 bits'%(ent,guess,dim),weight=1))
    J.append(Job('P-floor0','C02/p_floor0.c',unwind=18,unwindset=[('ov_ilog',None,34),('harness',r'i<256',257)],checks=['leak'],witnesses=['accepted','accepted with several books','rejected'],models=BS,
        functions=['floor0_unpack','floor0_free_info'],bounds='any packet <= 40 bytes (the header is at most 186 bits); all 16 book slots; 3 arbitrary book descriptors shared by the 256 slots',weight=1))
    for dimc,m in ([(1,3),(2,5)] if q else [(1,3),(2,5),(3,8),(1,6),(2,4)]):
        J.append(Job('K-floor0-d%d-m%d'%(dimc,m),'C02/k_floor0.c',defs=['-DMMAX=%d'%m,'-DMFIX=%d'%m,'-DNBK=3','-DDIMC=%d'%dimc],unwind=18,unwindset=[('ov_ilog',None,34)],checks=['leak'],
            witnesses=['coefficients decoded','unused / end of packet']+(['three or more vectors'] if m>2*dimc else []),models=BS+['vorbis_book_decodev_set cut: delivers tagged scalars 1,2,4,.. or end of packet (its own harness: K-bookvec)','_vorbis_block_alloc = constant-size malloc of the checked request'],
            functions=['floor0_inverse1','floor0_look','floor0_free_look'],bounds='order %d, book dimension %d, <=3 codebooks, 1..16 book slots (slots beyond numbooks arbitrary), amplitude field 0..63 bits, packet <= 40 bytes'%(m,dimc),weight=2))
    for ab in (8,31,32):
        J.append(Job('K-floor0-amp%d'%ab,'C02/k_floor0.c',defs=['-DMMAX=1','-DMFIX=1','-DNBK=1','-DDIMC=1','-DAMPB=%d'%ab],unwind=18,unwindset=[('ov_ilog',None,34)],checks=['leak'],
            witnesses=['coefficients decoded','unused / end of packet']+(['32-bit amplitude with the top bit set'] if ab==32 else []),models=BS,functions=['floor0_inverse1'],
            bounds='amplitude field of %d bits, every field value; order 1'%ab+(' (exact oracle)' if ab<=16 else ' (range oracle: finite, within [0,offset], non-zero for large fields)'),weight=2))
    for sf,cf in [(1,1),(0,0),(1,0),(0,1)]:
        cm,chm=(4,6) if q else (8,12)
        J.append(Job('P-map-s%d-c%d'%(sf,cf),'C02/p_map.c',defs=['-DSUBF=%d'%sf,'-DCPLF=%d'%cf,'-DCMAX=%d'%cm,'-DCHMAX=%d'%chm],unwind=18,unwindset=[('mapping0_unpack',r'i<info->coupling_steps',cm+1),('mapping0_unpack',r'i<vi->channels',chm+1),('harness',r'i<CMAX',cm+1),('harness',r'i<CHMAX',chm+1),('ov_ilog',None,34)],
            checks=['leak'],witnesses=['accepted','rejected']+(['accepted with two coupling steps'] if cf else [])+(['accepted with several submaps'] if sf else []),models=BS,functions=['mapping0_unpack','mapping0_free_info'],
            bounds='any packet <= 80 bytes; channels <= %d, coupling steps <= %d (per-step loop uniform), floors/residues 1..64; presence flags (%d,%d) as configuration'%(chm,cm,sf,cf),weight=2))
    nc=4 if q else 5
    J.append(Job('S-headerin','C02/s_headerin.c',defs=['-DNCALL=%d'%nc],cuts={'info.c':['_vorbis_unpack_info','_vorbis_unpack_comment','_vorbis_unpack_books']},unwind=9,unwindset=[('harness',r'k<NCALL',nc+1),('ov_ilog',None,34)],checks=['leak'],native_link=['-logg'],
        witnesses=['all three headers accepted in order','a due stage failed','setup header before its predecessors refused'],models=['M-bitpack','stage parsers cut to contracts'],functions=['vorbis_synthesis_headerin','vorbis_synthesis_idheader','_v_readstring'],
        bounds='%d header calls in any order, packets of 0..8 arbitrary bytes, any b_o_s, NULL packets'%nc,weight=2))
    cn=2 if q else 3
    J.append(Job('P-setup','C02/p_setup.c',defs=['-DCNT=%d'%cn],unwind=cn+2,unwindset=[('ov_ilog',None,34)],checks=['leak'],witnesses=['accepted','accepted with two modes and two floors','rejected','rejected after three or more objects were built'],
        models=BS+['sub-parsers cut to contracts through own registry tables'],functions=['_vorbis_unpack_books','vorbis_info_clear'],bounds='any packet <= 120 bytes; every section count <= %d (uniform loops)'%cn,weight=2))
    return J
CLAIM={'text':'Assume-guarantee chain of bounded model checks on the real packet-level decoder: header parsers on arbitrary input as producers of validity predicates (codebook, residue; comment via C16) with leak checks on every reject path, the lattice-size kernel incl. dim==0, the audio packet prologue against the specification for every packet, decoder init/retry/clear histories, and the accumulator step (vorbis_synthesis_blockin/pcmout/read) as an inductive step from every valid state.',
 'note':'Trusted: M-bitsrc over-approximates packet contents for parsers; M-bitpack for the prologue; contract stubs at the cuts listed per harness; allocation failure out of scope. Bounds per job (entries <= 3-4, partitions <= 4-8, packets <= 19-24 bytes...). Also: floor-0 set-up parser (P-floor0) and floor-0 packet decode (K-floor0: book selection stays inside the books of that floor, vector request = order+dim+1 floats, D21 amplitude scale). Mapping set-up parser (P-map); the header state machine for header packets in any order with any flags (S-headerin); half-rate switch refused for 64-sample short blocks (hs-flag); residue partition walk, VQ vector decoders and Huffman decode stay inside their vectors/tables (K-res, K-bookvec, huff-decode: shared with C01); top level of the setup parser with clean-up on every reject path (P-setup). NOT yet covered (planned in DESIGN section 3 C02, not built): floor1 parser (harness written, does not finish), vorbis_book_init_decode on symbolic length lists (concrete books: C01 huff-decode), floor/residue/mapping inverse kernels, stack budget (alloca) monitor. The claim is therefore memory safety and termination of the listed units only, not of the whole packet API.'}
import importlib.util as _u, os as _o
def _blk():
    p=_o.path.join(_o.path.dirname(_o.path.dirname(_o.path.abspath(__file__))),'block','jobs_common.py'); sp=_u.spec_from_file_location('blk',p); m=_u.module_from_spec(sp); sp.loader.exec_module(m); return m
_jobs0=jobs
def jobs(tier):
    import sys; sys.path.insert(0,_o.path.dirname(_o.path.dirname(_o.path.abspath(__file__))))
    from jobs_lib import other as _other
    return _jobs0(tier)+[j for j in _blk().blockin_jobs(tier) if 'data' not in j.name][:2 if tier=='quick' else 99]+_other('C20',tier,lambda j:j.name=='hs-flag')+_other('C01',tier,lambda j:j.name.startswith('K-res') or j.name.startswith('K-bookvec') or j.name.startswith('huff-decode'))
