from vlib.runner import Job
BS=['M-bitsrc (models/bitsrc.c: libogg read-side position accounting, arbitrary data)']
def jobs(tier):
    J=[]
    q=tier=='quick'
    pm=4 if q else 8
    J.append(Job('P-res','C02/p_res.c',defs=['-DPMAX=%d'%pm],unwind=9,unwindset=[('harness',r'i<256',257),('harness',r'j<PMAX',pm+1),('res0_unpack',r'j<info->partitions',pm+1),('res0_unpack',r'j<acc',pm*8+1),('res0_unpack',r'while\(dim>0\)',26),('icount',None,9)],
        checks=['leak'],witnesses=['accepted','accepted with a stage book','rejected'],models=BS,functions=['res0_unpack','res0_free_info','icount'],
        bounds='any packet <= 600 bytes with partitions <= %d (per-partition loops uniform); 3 arbitrary book descriptors shared by the 256 slots'%pm,weight=4,mem_est=(3 if q else 10)))
    eb,st=(3,19) if q else (4,20)
    J.append(Job('P-book','C02/p_book.c',defs=['-DEB=%d'%eb,'-DSTOR=%d'%st],cuts={'sharedbook.c':['_book_maptype1_quantvals']},unwind=eb+2,
        unwindset=[('vorbis_staticbook_unpack',r'for\(i=0;i<s->entries;\)',eb+7),('vorbis_staticbook_unpack',r'i<quantvals',8*(st-17)+1),('ov_ilog',None,34)],checks=['leak'],
        witnesses=['accepted','accepted with quant values','rejected'],models=BS+['contract stub for _book_maptype1_quantvals (proved by P-quantvals)'],
        functions=['vorbis_staticbook_unpack','vorbis_staticbook_destroy'],bounds='any packet <= %d bytes, entries <= %d, ordered books start at length >= 28'%(st,eb),weight=4,mem_est=(6 if q else 20),mem_gb=(12 if q else 40)))
    for e0,e1 in ([(6,7)] if q else [(6,6),(6,7),(8,11)]):
        J.append(Job('K-synth-%d-%d'%(1<<e0,1<<e1),'C02/k_synth.c',defs=['-DE0=%d'%e0,'-DE1=%d'%e1,'-DCH=2'],unwind=66,native_link=['-logg'],
            witnesses=['long block accepted','trackonly accepted','blocksize'],models=['M-bitpack','mapping decode cut to its verdict'],
            functions=['vorbis_synthesis','vorbis_synthesis_trackonly','vorbis_packet_blocksize','vorbis_synthesis_halfrate'],
            bounds='packet 0..2 bytes (prologue is <= 9 bits), modes 1..64, <=2 channels, block sizes (%d,%d)'%(1<<e0,1<<e1),weight=2,mem_est=7))
    nb=2 if q else 3
    J.append(Job('S-init-retry','C02/s_init_retry.c',defs=['-DNB=%d'%nb],unwind=max(nb,2)+2,unwindset=[('vorbis_info_clear',r'i<ci->books',nb+1),('ov_ilog',None,34)],checks=['leak'],object_bits=10,
        witnesses=['first init failed','retry failed'],models=['codebook construction cut to "fails or builds" (contract)','M-dsp constructors'],
        functions=['vorbis_synthesis_init','_vds_shared_init','vorbis_dsp_clear','vorbis_info_clear'],bounds='<=%d codebooks, 1 floor/residue/mapping/mode; two init attempts'%nb,weight=2))
    em,dm=(1024,3) if q else (1<<16,8)
    J.append(Job('P-quantvals','C02/p_quantvals.c',defs=['-DEMAX=%d'%em,'-DDMAX=%d'%dm],unwind=dm+2,unwindset=[('_book_maptype1_quantvals',r'while\(1\)',6)],
        witnesses=['degenerate book','guess corrected'],models=['M-libm: pow returns any value within +-2 of the root'],functions=['_book_maptype1_quantvals'],
        bounds='entries 0..%d, dim 0..%d (incl. 0)'%(em,dm),weight=3,solver='kissat'))
    for ent,guess,dim in ([(2,1,64),(3,3,65)] if q else [(1,1,64),(2,1,64),(2,3,63),(3,2,100),(3,3,65),(2,2,127)]):
        J.append(Job('P-quantvals-highdim-e%d-g%d-d%d'%(ent,guess,dim),'C02/p_quantvals.c',defs=['-DENTC=%d'%ent,'-DGUESSC=%d'%guess,'-DDLO=%d'%dim,'-DDHI=%d'%dim],unwind=132,unwindset=[('_book_maptype1_quantvals',r'while\\(1\\)',6)],
            witnesses=['dim >= 64'] if dim>=64 else [],witness=(dim>=64),models=['libm guess fixed to %d'%guess],functions=['_book_maptype1_quantvals'],
            bounds='concrete configuration entries %d, guess %d, dim %d (with symbolic dim or entries the 64-bit divisions exhaust 12 GB): termination and value where (vals+1)^dim overflows 64 bits'%(ent,guess,dim),weight=1))
    return J
CLAIM={'text':'Assume-guarantee chain of bounded model checks on the real packet-level decoder: header parsers on arbitrary input as producers of validity predicates (codebook, residue; comment via C16) with leak checks on every reject path, the lattice-size kernel incl. dim==0, the audio packet prologue against the specification for every packet, decoder init/retry/clear histories, and the accumulator step (vorbis_synthesis_blockin/pcmout/read) as an inductive step from every valid state.',
 'note':'Trusted: M-bitsrc over-approximates packet contents for parsers; M-bitpack for the prologue; contract stubs at the cuts listed per harness; allocation failure out of scope. Bounds per job (entries <= 3-4, partitions <= 4-8, packets <= 19-24 bytes...). NOT yet covered (planned in DESIGN section 3 C02, not built): floor0/floor1/mapping parsers, _vorbis_unpack_books, vorbis_book_init_decode and Huffman decode, floor/residue/mapping inverse kernels, stack budget (alloca) monitor. The claim is therefore memory safety and termination of the listed units only, not of the whole packet API.'}
import importlib.util as _u, os as _o
def _blk():
    p=_o.path.join(_o.path.dirname(_o.path.dirname(_o.path.abspath(__file__))),'block','jobs_common.py'); sp=_u.spec_from_file_location('blk',p); m=_u.module_from_spec(sp); sp.loader.exec_module(m); return m
_jobs0=jobs
def jobs(tier):
    return _jobs0(tier)+[j for j in _blk().blockin_jobs(tier) if 'data' not in j.name][:2 if tier=='quick' else 99]
