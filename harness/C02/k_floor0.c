/* C02/C01/C13 K-floor0 — floor 0 packet decode (coefficient unwrap) and look life cycle.
 * real code : floor0_inverse1, floor0_look, floor0_free_look (lib/floor0.c)
 * cut       : vorbis_book_decodev_set -> fills the vector with arbitrary floats or reports end of packet (its own harness: K-bookdec,
 *             not built); _vorbis_block_alloc -> malloc; packet bits through M-bitsrc
 * symbolic  : V_floor0 info: order 1..MMAX, ampbits 0..63, numbooks 1..16, books[j] < ci.books for j < numbooks and ARBITRARY for
 *             j >= numbooks (the tail of the malloc'ed info is never written by floor0_unpack); codebook dims 1..3; ci.books 1..NBK
 * assert    : memory-safe for every packet (in particular a book number read from the packet only selects one of THIS floor's
 *             numbooks books); spec 6.2.2: the running offset added to vector k is the LAST scalar of vector k-1 after its own
 *             offset was added (not a sum over all earlier vectors); amplitude stored behind the coefficients;
 *             look life cycle: both lazily built bark maps are released exactly once.
 */
#include "verif.h"
#include <stdlib.h>
#include <string.h>
#include <ogg/ogg.h>
#include "vorbis/codec.h"
#include "codec_internal.h"
#ifndef MMAX
#define MMAX 5
#endif
#ifndef DIMC
#define DIMC 1
#endif
#ifndef NBK
#define NBK 3
#endif
static unsigned long g_ampraw; 
#define BITSRC_HOOK(c,v) do{ if((c)==0) g_ampraw=(unsigned long)(v); }while(0)   /* ghost: the amplitude field as read */
#include "bitsrc.c"
static float g_raw[MMAX+8]; static int g_eop;
#ifndef MFIX
#error "one job per order (MFIX): a symbolic allocation size exhausts memory in propositional reduction"
#endif
/* the request is checked to be exactly order+dim+1 floats and served with that CONSTANT size (a symbolic-size heap object made the
   formula explode: no verdict within 60 GB); every access of the real code is then bounds-checked against the real request */
static void *g_vec;   /* block-local storage belongs to the vorbis_block: released by the harness at the end */
void *_vorbis_block_alloc(vorbis_block *vb,long bytes){ CHECK(bytes==(long)sizeof(float)*(MFIX+DIMC+1),"lsp vector request = order + book dimension + 1 floats"); g_vec=malloc(sizeof(float)*(MFIX+DIMC+1)); return g_vec; }
long vorbis_book_decodev_set(codebook *book,float *a,oggpack_buffer *b,int n){ CHECK(book->dim>=1,"VQ book with dim>=1 (V_floor0)"); if(g_eop) return -1; for(int i=0;i<MMAX;i++) if(i<n) a[i]=g_raw[i]; return 0; }
#include "floor0.c"
int ov_ilog(ogg_uint32_t v){ int ret; for(ret=0;v;ret++)v>>=1; return ret; }
void harness(void){
  vorbis_info vi; codec_setup_info ci; vorbis_dsp_state vd; vorbis_block vb; memset(&vi,0,sizeof vi); memset(&ci,0,sizeof ci); memset(&vd,0,sizeof vd); memset(&vb,0,sizeof vb);
  vi.codec_setup=&ci; vd.vi=&vi; vb.vd=&vd; ci.books=ND_irange(1,NBK);
  static codebook fb[NBK]; ci.fullbooks=fb; for(int i=0;i<NBK;i++){ fb[i].dim=DIMC; }   /* configuration: one job per book dimension */
  vorbis_info_floor0 info; 
#ifdef MFIX
  info.order=MFIX;
#else
  info.order=ND_irange(1,MMAX);
#endif
  info.rate=44100; info.barkmap=64; 
#ifdef AMPB
  info.ampbits=AMPB;   /* amplitude-oracle jobs: one per field width (a symbolic width in the float oracle does not finish) */
#else
  info.ampbits=ND_irange(0,63);
#endif
  info.ampdB=ND_irange(0,255);
  info.numbooks=ND_irange(1,16); for(int j=0;j<16;j++){ info.books[j]=ND_int(); if(j<info.numbooks) ASSUME(info.books[j]>=0 && info.books[j]<ci.books); }
  vorbis_look_floor0 *look=(vorbis_look_floor0 *)floor0_look(&vd,(vorbis_info_floor *)&info);
  CHECK(look && look->m==info.order && look->ln==info.barkmap && look->linearmap && look->linearmap[0]==0 && look->linearmap[1]==0,"look initialised, bark maps not yet built");
  static unsigned char dummy[4]; oggpack_readinit(&vb.opb,dummy,(int)ND_range(0,40));
  /* decoded scalars: concrete distinct TAGS 1,2,4,8,.. (every partial sum is exact and identifies which scalars were accumulated); the unwrap only
     adds, so tags decide it for all values; symbolic floats on both sides of the adder chain cost 200-500 s per job */
  for(int i=0;i<MMAX+8;i++) g_raw[i]=(float)(1<<i); g_eop=ND_BOOL();
  float *lsp=(float *)floor0_inverse1(&vb,(vorbis_look_floor *)look);
  if(lsp){
    int m=info.order;
    /* reference (spec 6.2.2 steps 6-9): vectors of the book's dimension, each offset by the last scalar of the previous one */
    { float last=0.f; int j=0;
      while(j<MMAX){ for(int k=0;j<MMAX && k<DIMC;k++,j++) if(j<m){ float want=g_raw[j]+last; CHECK(lsp[j]==want || (lsp[j]!=lsp[j] && want!=want),"LSP coefficient = decoded scalar + last scalar of the PREVIOUS vector (spec 6.2.2)"); }
        if(j-1<m) last=lsp[j-1]; } }
#ifdef AMPB
    /* spec 6.2.2 step 2/6.2.3: amplitude = field/(2^ampbits-1)*amplitude_offset, for every field width that can be read (<=32 bits) */
    { float want=(float)g_ampraw/(float)((((unsigned long)1)<<info.ampbits)-1)*(float)info.ampdB;
      CHECK(info.ampbits>=1 && info.ampbits<=32 && g_ampraw>=1,"floor in use only after a successful non-zero amplitude read");
#if AMPB<=16
      CHECK(lsp[m]==want,"amplitude = field / (2^ampbits - 1) * offset (spec 6.2.2)");
#else
      /* wide fields: the exact float oracle does not finish (two divisions by 2^31-1 / 2^32-1); decided instead: the ratio field/(2^ampbits-1)
         lies in (0,1], so the amplitude is finite, non-negative and at most the offset (a scale computed in 32-bit int gives inf, NaN or a negative value) */
      (void)want;
      CHECK(lsp[m]==lsp[m] && lsp[m]>=0.f && lsp[m]<=(float)info.ampdB,"amplitude of a 31/32-bit field is finite and within [0, offset] (spec 6.2.2: field/(2^ampbits-1)*offset)");
      if(info.ampdB>0) CHECK(lsp[m]>0.f || g_ampraw<(1UL<<8),"a large field value gives a non-zero amplitude");
#endif
      if(info.ampbits==32 && g_ampraw>0x80000000UL) WITNESS_AT("32-bit amplitude with the top bit set"); }
#endif
    if(m>2*DIMC) WITNESS_AT("three or more vectors");
    WITNESS_AT("coefficients decoded");
  } else WITNESS_AT("unused / end of packet");
  /* look life cycle: the decoder builds the two bark maps lazily (floor0_map_lazy_init), then frees the look */
  if(ND_BOOL()) look->linearmap[0]=malloc(8); if(ND_BOOL()) look->linearmap[1]=malloc(8);
  floor0_free_look((vorbis_look_floor *)look);
  if(g_vec) free(g_vec);
}
