/* C02/C01/C07 K-synth — audio packet prologue: vorbis_synthesis (up to the mapping dispatch), vorbis_synthesis_trackonly,
 *                       vorbis_packet_blocksize, vorbis_synthesis_halfrate.
 * real code : the four functions above (lib/synthesis.c); the block-local allocator is cut to plain malloc
 * symbolic  : packet of 0..2 arbitrary bytes (M-bitpack), packetno/granulepos/e_o_s, modes 1..64 with arbitrary block flags,
 *             mode_param[i]==NULL for i>=modes (V_setup), channels 1..CH, block sizes (configuration -DE0 -DE1)
 * reference : Vorbis I spec 4.3.1: packet type bit, ilog(modes-1) mode bits, for long blocks previous/next window flags
 * assert    : memory-safe for every packet; accept/reject decision, mode, W/lW/nW equal the reference; block carries the packet's
 *             granulepos / sequence number / eos flag; pcm storage = channels x blocksize (trackonly: none);
 *             vorbis_packet_blocksize agrees; half-rate refused exactly for 64-sample short blocks.
 */
#include "verif.h"
#include <stdlib.h>
#include <string.h>
#include <ogg/ogg.h>
#if !VERIF_NATIVE
#include "oggpack.c"
#endif
#include "vorbis/codec.h"
#include "codec_internal.h"
/* block-local allocator cut to plain allocation (its own harness: L-block); sizes must be non-negative and are recorded */
static long g_alloc_total=0;
void *_vorbis_block_alloc(vorbis_block *vb,long bytes){ CHECK(bytes>=0 && bytes<=(1L<<20),"block allocation size bounded by channels x block size"); g_alloc_total+=bytes; return malloc(bytes?bytes:1); }
void _vorbis_block_ripcord(vorbis_block *vb){}
#include "synthesis.c"
int ov_ilog(ogg_uint32_t v){ int ret; for(ret=0;v;ret++)v>>=1; return ret; }
static int inv_calls=0; static vorbis_block *inv_vb; static int inv_ret;
static int inv_stub(vorbis_block *vb,vorbis_info_mapping *m){ inv_calls++; inv_vb=vb; return inv_ret; }
static const vorbis_func_mapping mf={0,0,0,0,&inv_stub};
const vorbis_func_mapping *const _mapping_P[]={&mf};
const vorbis_func_floor *const _floor_P[]={0,0}; const vorbis_func_residue *const _residue_P[]={0,0,0};
#ifndef CH
#define CH 2
#endif
static vorbis_info_mode modes[64];
void harness(void){
  vorbis_info vi; codec_setup_info ci; vorbis_dsp_state vd; private_state b; vorbis_block vb;
  memset(&vi,0,sizeof vi); memset(&ci,0,sizeof ci); memset(&vd,0,sizeof vd); memset(&b,0,sizeof b);
  vi.codec_setup=&ci; vi.channels=ND_irange(1,CH); vd.vi=&vi; vd.backend_state=&b;
  ci.blocksizes[0]=1L<<E0; ci.blocksizes[1]=1L<<E1; ci.modes=ND_irange(1,64); ci.maps=1; int dummy; ci.map_param[0]=&dummy;
  for(int i=0;i<64;i++){ modes[i].blockflag=ND_irange(0,1); modes[i].mapping=0; ci.mode_param[i]= i<ci.modes? &modes[i]:0; }
  b.modebits=ov_ilog(ci.modes-1);
  memset(&vb,0,sizeof vb); vb.vd=&vd;
  /* the block is REUSED across packets: whatever an earlier real decode left in it (pcm pointer, pcmend, flags) is arbitrary here */
  static float *stale_rows[CH]; if(ND_BOOL()){ vb.pcm=stale_rows; vb.pcmend=ND_irange(0,8192); vb.W=ND_irange(0,1); vb.lW=ND_irange(0,1); vb.nW=ND_irange(0,1); vb.mode=ND_irange(0,63); vb.sequence=ND_long(); vb.granulepos=ND_long(); vb.eofflag=ND_irange(0,1); }
  unsigned char pk[2]={ND_uchar(),ND_uchar()}; ogg_packet op; memset(&op,0,sizeof op); op.packet=pk; op.bytes=ND_irange(0,2);
  op.granulepos=ND_long(); op.packetno=ND_long(); op.e_o_s=ND_irange(0,1); inv_ret=ND_irange(-1,0);
  /* reference parse (spec 4.3.1) over the bit string */
  unsigned bits=pk[0]|(pk[1]<<8); int nb=op.bytes*8; int ok=1, rmode=-1, rW=0,rlW=0,rnW=0; int pos=0;
  int notaudio=0;
  if(nb<1){ ok=0; notaudio=1; /* EOP on the type bit: oggpack_read returns -1 != 0 => "not audio" */ }
  else if(bits&1){ ok=0; notaudio=1; }
  else { pos=1; if(pos+b.modebits>nb) ok=0; else { rmode=(bits>>pos)&((1u<<b.modebits)-1); pos+=b.modebits;
      if(rmode>=ci.modes) ok=0; else { rW=modes[rmode].blockflag; if(rW){ if(pos+2>nb) ok=0; else { rlW=(bits>>pos)&1; rnW=(bits>>(pos+1))&1; } } } } }
  int which=ND_irange(0,2);
  if(which==0){
    int r=vorbis_synthesis(&vb,&op);
    if(notaudio) CHECK(r==OV_ENOTAUDIO,"non-audio packet => OV_ENOTAUDIO");
    else if(!ok) CHECK(r==OV_EBADPACKET && inv_calls==0,"truncated or out-of-range prologue => OV_EBADPACKET before any decode");
    else { CHECK(inv_calls==1 && r==inv_ret,"valid prologue => mapping decode entered once, its verdict returned");
      CHECK(vb.mode==rmode && vb.W==rW && vb.lW==rlW && vb.nW==rnW,"mode and window flags per spec 4.3.1");
      CHECK(vb.granulepos==op.granulepos && vb.sequence==op.packetno && vb.eofflag==op.e_o_s,"block carries the packet's granule position, sequence number and eos flag");
      CHECK(vb.pcmend==ci.blocksizes[rW] && vb.pcm!=0,"pcm storage sized for the block");
      for(int c=0;c<CH;c++) if(c<vi.channels){ vb.pcm[c][0]=0.f; vb.pcm[c][vb.pcmend-1]=0.f; }    /* first/last cell writable */
      if(rW) WITNESS_AT("long block accepted"); }
  }else if(which==1){
    int r=vorbis_synthesis_trackonly(&vb,&op);
    if(notaudio) CHECK(r==OV_ENOTAUDIO,"trackonly: non-audio packet");
    else if(!ok) CHECK(r==OV_EBADPACKET,"trackonly: bad prologue");
    else { CHECK(r==0 && vb.mode==rmode && vb.W==rW && vb.lW==rlW && vb.nW==rnW,"trackonly: mode and window flags per spec 4.3.1");
      CHECK(vb.granulepos==op.granulepos && vb.sequence==op.packetno && vb.eofflag==op.e_o_s,"trackonly: block carries the packet's granule position, sequence number and eos flag");
      CHECK(vb.pcm==0 && vb.pcmend==0,"trackonly: no pcm"); WITNESS_AT("trackonly accepted"); }
  }else{
    long r=vorbis_packet_blocksize(&vi,&op);
    if(notaudio) CHECK(r==OV_ENOTAUDIO,"blocksize: non-audio packet");
    else if(rmode<0 || rmode>=ci.modes) CHECK(r==OV_EBADPACKET,"blocksize: bad mode");
    else { CHECK(r==ci.blocksizes[modes[rmode].blockflag],"blocksize of the packet's mode"); WITNESS_AT("blocksize"); }
    int fl=ND_irange(0,1); int hr=vorbis_synthesis_halfrate(&vi,fl);
    CHECK((hr!=0)==(fl && ci.blocksizes[0]<=64),"half rate refused exactly when the short block is 64 samples");
    CHECK(vorbis_synthesis_halfrate_p(&vi)==(hr?0:fl),"flag reads back");
  }
}
