/* C02 P-book — codebook header parser on arbitrary input (producer of V_book).
 * real code : vorbis_staticbook_unpack (lib/codebook.c), vorbis_staticbook_destroy (lib/sharedbook.c)
 * symbolic  : packet contents and length (<= STOR bytes) through M-bitsrc
 * bound     : the entries field (3rd read) is <= EB (the per-entry loops are uniform)
 * cut       : _book_maptype1_quantvals -> contract (precondition dim>=1 asserted; returns any r with 0<=r<=max(entries,0));
 *             its own harness is P-quantvals
 * assert    : memory-safe (every lengthlist/quantlist write inside its allocation); accept => V_book: 0<=dim<2^16,
 *             0<=entries<2^24, ilog(dim)+ilog(entries)<=24, every length 0..32, maptype 0..2, q_quant 1..16,
 *             q_sequencep 0/1, quantlist present iff maptype!=0 with values < 2^q_quant; reject => everything freed.
 */
#include "verif.h"
#include <stdlib.h>
#include <string.h>
#include <ogg/ogg.h>
#ifndef EB
#define EB 6
#endif
#ifndef STOR
#define STOR 20
#endif
static int hook_ordered;
/* bounds: entries (3rd read) <= EB; for length-ordered books the initial codeword length (5th read)+1 >= 28, so that the
   run loop, which may spin once per length value up to 32, is unrolled EB+6 times */
#define BITSRC_HOOK(c,v) do{ if((c)==2) ASSUME((v)<=EB); if((c)==3) hook_ordered=(int)(v); if((c)==4 && hook_ordered) ASSUME((v)>=27); }while(0)
#include "bitsrc.c"
#define bitreverse sharedbook_bitreverse   /* both units define a static bitreverse */
#include "sharedbook.c"      /* with _book_maptype1_quantvals cut (renamed __real, prototype kept) */
#undef bitreverse
#include "codebook.c"
static long qv_result;
long _book_maptype1_quantvals(const static_codebook *b){
  CHECK(b->dim>=1,"precondition of _book_maptype1_quantvals (dim>=1) established by the caller");
  long r=ND_range(0,1<<24); ASSUME(b->entries<1 ? r==0 : r<=b->entries); qv_result=r; return r; }
void harness(void){
  static unsigned char dummy[4]; oggpack_buffer opb; oggpack_readinit(&opb,dummy,(int)ND_range(0,STOR));
  static_codebook *s=vorbis_staticbook_unpack(&opb);
  if(s){
    CHECK(s->allocedp==1,"V_book: heap book");
    CHECK(s->dim>=0 && s->dim<65536 && s->entries>=0 && s->entries<=EB,"V_book: dim/entries ranges");
    CHECK(ov_ilog(s->dim)+ov_ilog(s->entries)<=24,"V_book: ilog(dim)+ilog(entries)<=24");
    CHECK(s->entries==0 || s->lengthlist!=0,"V_book: length list present");
    for(int i=0;i<EB;i++) if(i<s->entries) CHECK(s->lengthlist[i]>=0 && s->lengthlist[i]<=32,"V_book: codeword lengths 0..32");
    CHECK(s->maptype>=0 && s->maptype<=2,"V_book: maptype 0..2");
    if(s->maptype){
      CHECK(s->q_quant>=1 && s->q_quant<=16 && (s->q_sequencep==0||s->q_sequencep==1),"V_book: q_quant 1..16, sequence flag");
      long qn = s->maptype==1 ? (s->dim==0?0:qv_result) : s->entries*s->dim;
      CHECK(qn<=8*(STOR-17),"V_book: quantlist size bounded by the packet size (heap budget)");
      long k=ND_range(0,8*(STOR-17)-1);
      if(k<qn){ CHECK(s->quantlist[k]>=0 && s->quantlist[k]<(1L<<s->q_quant),"V_book: quant values < 2^q_quant"); WITNESS_AT("accepted with quant values"); }
    } else CHECK(s->quantlist==0,"V_book: no quantlist without a value mapping");
    if(s->entries>=2 && s->lengthlist[0]!=s->lengthlist[1]) WITNESS_AT("accepted");
    vorbis_staticbook_destroy(s);
  } else WITNESS_AT("rejected");
}
