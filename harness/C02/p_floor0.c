/* C02 P-floor0 — floor 0 setup parser on arbitrary input (producer of V_floor0).
 * real code : floor0_unpack, floor0_free_info (lib/floor0.c)
 * symbolic  : packet contents and length through M-bitsrc; ci->books 1..256, three arbitrary book descriptors shared round-robin
 * assert    : memory-safe (books[16], book_param[] index); accept => V_floor0: order 1..255, rate 1..65535, barkmap 1..65535,
 *             ampbits 0..63, ampdB 0..255, numbooks 1..16, every listed book < ci->books with a value mapping and dim>=1
 *             (floor0_inverse1 allocates order+dim+1 floats and vorbis_book_decodev_set steps by dim); reject => freed.
 */
#include "verif.h"
#include <stdlib.h>
#include <string.h>
#include <ogg/ogg.h>
#include "bitsrc.c"
#include "floor0.c"
int ov_ilog(ogg_uint32_t v){ int ret; for(ret=0;v;ret++)v>>=1; return ret; }
#define NBK 3
void harness(void){
  vorbis_info vi; codec_setup_info ci; memset(&vi,0,sizeof vi); memset(&ci,0,sizeof ci); vi.codec_setup=&ci;
  static static_codebook pool[NBK];
  for(int i=0;i<NBK;i++){ pool[i].dim=ND_range(-2,65535); pool[i].entries=ND_range(0,(1<<24)-1); pool[i].maptype=ND_irange(0,2); }
  ci.books=ND_irange(1,256);
  for(int i=0;i<256;i++) ci.book_param[i]=&pool[i%NBK];
  static unsigned char dummy[4]; oggpack_buffer opb; oggpack_readinit(&opb,dummy,(int)ND_range(0,40));
  vorbis_info_floor0 *info=(vorbis_info_floor0 *)floor0_unpack(&vi,&opb);
  if(info){
    CHECK(info->order>=1 && info->order<=255,"V_floor0: order 1..255");
    CHECK(info->rate>=1 && info->rate<=65535,"V_floor0: rate 1..65535");
    CHECK(info->barkmap>=1 && info->barkmap<=65535,"V_floor0: bark map size 1..65535");
    CHECK(info->ampbits>=0 && info->ampbits<=63,"V_floor0: amplitude bits 0..63");
    CHECK(info->ampdB>=0 && info->ampdB<=255,"V_floor0: amplitude offset 0..255");
    CHECK(info->numbooks>=1 && info->numbooks<=16,"V_floor0: 1..16 books");
    int k=ND_irange(0,15);
    if(k<info->numbooks){
      CHECK(info->books[k]>=0 && info->books[k]<ci.books,"V_floor0: book in range");
      CHECK(ci.book_param[info->books[k]]->maptype!=0,"V_floor0: book has a value mapping");
      CHECK(ci.book_param[info->books[k]]->dim>=1,"V_floor0: book dim>=1");
      if(k>=1) WITNESS_AT("accepted with several books");
    }
    WITNESS_AT("accepted");
    floor0_free_info(info);
  } else WITNESS_AT("rejected");
}
