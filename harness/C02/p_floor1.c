/* C02 P-floor1 — floor 1 setup parser on arbitrary input (producer of V_floor1).
 * real code : floor1_unpack, floor1_free_info, icomp (lib/floor1.c)
 * symbolic  : packet contents and length through M-bitsrc; ci->books 1..256
 * bound     : partitions (1st read) <= PMAX (per-partition loops uniform); qsort as contract (<= QMAX pointers)
 * assert    : memory-safe (partitionclass[31], class_* [16], postlist[65], sortpointer[65]); accept => V_floor1: partitions in range,
 *             classes 0..15, class_dim 1..8, class_subs 0..3, class/sub books in range (-1 allowed for sub books), mult 1..4,
 *             post count <= 63, postlist[0]==0, postlist[1]==2^rangebits, other posts < 2^rangebits, all posts distinct;
 *             reject => object freed.
 */
#include "verif.h"
#include <stdlib.h>
#include <string.h>
#include <ogg/ogg.h>
#ifndef PMAX
#define PMAX 3
#endif
#define QMAX (PMAX*8+2)
#define BITSRC_HOOK(c,v) do{ if((c)==0) ASSUME((v)<=PMAX); }while(0)
#include "bitsrc.c"
#include "qsort_contract.c"
#include "floor1.c"
int ov_ilog(ogg_uint32_t v){ int ret; for(ret=0;v;ret++)v>>=1; return ret; }
void harness(void){
  vorbis_info vi; codec_setup_info ci; memset(&vi,0,sizeof vi); memset(&ci,0,sizeof ci); vi.codec_setup=&ci; ci.books=ND_irange(1,256);
  static unsigned char dummy[4]; oggpack_buffer opb; oggpack_readinit(&opb,dummy,(int)ND_range(0,600));
  vorbis_info_floor1 *info=(vorbis_info_floor1 *)floor1_unpack(&vi,&opb);
  if(info){
    CHECK(info->partitions>=0 && info->partitions<=PMAX,"V_floor1: partitions 0..31 (here <= PMAX)");
    int maxclass=-1,count=0;
    for(int j=0;j<PMAX;j++) if(j<info->partitions){ CHECK(info->partitionclass[j]>=0 && info->partitionclass[j]<16,"V_floor1: partition class 0..15"); if(info->partitionclass[j]>maxclass)maxclass=info->partitionclass[j]; }
    for(int j=0;j<16;j++) if(j<=maxclass){ CHECK(info->class_dim[j]>=1 && info->class_dim[j]<=8,"V_floor1: class dimension 1..8"); CHECK(info->class_subs[j]>=0 && info->class_subs[j]<=3,"V_floor1: subclass bits 0..3");
      CHECK(info->class_book[j]>=0 && info->class_book[j]<ci.books,"V_floor1: class book in range");
      for(int k=0;k<8;k++) if(k<(1<<info->class_subs[j])) CHECK(info->class_subbook[j][k]>=-1 && info->class_subbook[j][k]<ci.books,"V_floor1: subclass book in range or -1"); }
    for(int j=0;j<PMAX;j++) if(j<info->partitions) count+=info->class_dim[info->partitionclass[j]];
    CHECK(count<=VIF_POSIT,"V_floor1: at most 63 posts"); CHECK(info->mult>=1 && info->mult<=4,"V_floor1: multiplier 1..4");
    CHECK(info->postlist[0]==0 && info->postlist[1]>=1 && info->postlist[1]<=32768,"V_floor1: end posts 0 and 2^rangebits");
    int a=ND_irange(0,QMAX-1), b=ND_irange(0,QMAX-1);
    if(a<count+2 && b<count+2 && a!=b){ CHECK(info->postlist[a]!=info->postlist[b],"V_floor1: all posts distinct"); if(a>=2) CHECK(info->postlist[a]>=0 && info->postlist[a]<info->postlist[1],"V_floor1: inner posts < 2^rangebits"); }
    if(info->partitions>=1 && count>=2) WITNESS_AT("accepted with partitions");
    WITNESS_AT("accepted");
    floor1_free_info(info);
  } else WITNESS_AT("rejected");
}
