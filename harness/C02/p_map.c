/* C02 P-map — mapping 0 set-up parser on arbitrary input (producer of V_map).
 * real code : mapping0_unpack, mapping0_free_info (lib/mapping0.c)
 * symbolic  : packet contents and length through M-bitsrc; channels 1..CHMAX, floors/residues 1..64
 * config    : -DSUBF / -DCPLF: the two presence flags (submap count / coupling list) are configuration so that the later fields sit at
 *             concrete read ordinals; -DCMAX bounds the coupling steps (per-step loop uniform)
 * assert    : memory-safe (coupling_mag/ang[256], chmuxlist[256], floor/residuesubmap[16]); accept => V_map: 1<=submaps<=16,
 *             0<=coupling_steps<=256 (here <= CMAX), every step: magnitude != angle, both < channels; every channel's submap number
 *             < submaps (all 0 when there is one submap); every submap's floor < floors and residue < residues; reject => freed.
 */
#include "verif.h"
#include <stdlib.h>
#include <string.h>
#include <ogg/ogg.h>
#ifndef SUBF
#define SUBF 1
#endif
#ifndef CPLF
#define CPLF 1
#endif
#ifndef CMAX
#define CMAX 3
#endif
#ifndef CHMAX
#define CHMAX 5
#endif
#define BITSRC_HOOK(c,v) do{ if((c)==0) ASSUME((v)==SUBF); if((c)==1+SUBF) ASSUME((v)==CPLF); if(CPLF && (c)==2+SUBF) ASSUME((v)<CMAX); }while(0)
#include "bitsrc.c"
#include "mapping0.c"
int ov_ilog(ogg_uint32_t v){ int ret; for(ret=0;v;ret++)v>>=1; return ret; }
void harness(void){
  vorbis_info vi; codec_setup_info ci; memset(&vi,0,sizeof vi); memset(&ci,0,sizeof ci); vi.codec_setup=&ci;
  vi.channels=ND_irange(-1,CHMAX); ci.floors=ND_irange(1,64); ci.residues=ND_irange(1,64);
  static unsigned char dummy[4]; oggpack_buffer opb; oggpack_readinit(&opb,dummy,(int)ND_range(0,80));
  vorbis_info_mapping0 *info=(vorbis_info_mapping0 *)mapping0_unpack(&vi,&opb);
  if(info){
    CHECK(vi.channels>=1,"no mapping without channels");
    CHECK(info->submaps>=1 && info->submaps<=16 && (SUBF || info->submaps==1),"V_map: 1..16 submaps");
    CHECK(info->coupling_steps>=0 && info->coupling_steps<=CMAX && (CPLF || info->coupling_steps==0),"V_map: coupling steps 0..256 (here <= CMAX)");
    for(int i=0;i<CMAX;i++) if(i<info->coupling_steps){ CHECK(info->coupling_mag[i]>=0 && info->coupling_mag[i]<vi.channels && info->coupling_ang[i]>=0 && info->coupling_ang[i]<vi.channels,"V_map: coupled channels exist");
      CHECK(info->coupling_mag[i]!=info->coupling_ang[i],"V_map: magnitude and angle are different channels"); }
    for(int i=0;i<CHMAX;i++) if(i<vi.channels) CHECK(info->chmuxlist[i]>=0 && info->chmuxlist[i]<info->submaps,"V_map: every channel's submap exists");
    for(int i=0;i<16;i++) if(i<info->submaps){ CHECK(info->floorsubmap[i]>=0 && info->floorsubmap[i]<ci.floors,"V_map: submap floor exists"); CHECK(info->residuesubmap[i]>=0 && info->residuesubmap[i]<ci.residues,"V_map: submap residue exists"); }
    if(info->coupling_steps>=2) WITNESS_AT("accepted with two coupling steps"); if(info->submaps>=2 && vi.channels>=2) WITNESS_AT("accepted with several submaps");
    WITNESS_AT("accepted");
    mapping0_free_info(info);
  } else WITNESS_AT("rejected");
}
