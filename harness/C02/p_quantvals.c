/* C02/C01 P-quantvals — _book_maptype1_quantvals terminates and returns lookup1_values (spec 9.2.3).
 * real code : _book_maptype1_quantvals (lib/sharedbook.c)
 * symbolic  : entries 0..EMAX, dim 0..DMAX (including dim==0, which vorbis_staticbook_unpack accepts and
 *             _book_unquantize passes here at vorbis_synthesis_init time), the libm guess
 * model     : M-libm: pow() returns any value within +-2 of the true root (the integer loop below it is what the code
 *             relies on; "safe whatever libm returns, within 2")
 * assert    : returns 0 for entries<1 or dim<1; else the unique r with r^dim <= entries < (r+1)^dim;
 *             terminates within 4 correction steps (unwinding assertion)
 */
#include "verif.h"
#include <stdlib.h>
#include <string.h>
#include <math.h>
#include <ogg/ogg.h>
static long pow_guess;
#define pow verif_pow
static double verif_pow(double a,double b){ return (double)pow_guess; }
#include "sharedbook.c"
#undef pow
#ifndef EMAX
#define EMAX 4096
#endif
#ifndef DMAX
#define DMAX 4
#endif
void harness(void){
  static_codebook b; memset(&b,0,sizeof b);
#ifdef ENTC
  /* high-dimension configuration: entries and the libm guess are configuration, dim symbolic in [DLO,DHI] (all arithmetic then folds
     per iteration; with everything symbolic the 64-bit divisions exhaust 12 GB).  For entries < 2^dim the answer is 1. */
  b.entries=ENTC; b.dim=ND_range(DLO,DHI); pow_guess=GUESSC;
  { long v=_book_maptype1_quantvals(&b); CHECK(v==1,"lookup1_values == 1 whenever 1 <= entries < 2^dim (incl. dims where (vals+1)^dim overflows 64 bits)"); if(b.dim>=64) WITNESS_AT("dim >= 64"); }
  return;
#endif
  b.entries=ND_range(0,EMAX); b.dim=ND_range(0,DMAX);
  long r=ND_range(0,EMAX);
  if(b.entries>=1 && b.dim>=1){
    /* r is the reference root: r^dim <= entries < (r+1)^dim, checked by bounded products */
    long lo=1,hi=1; int over=0;
    for(int i=0;i<DMAX;i++) if(i<b.dim){ lo*=r; if(lo>EMAX){ lo=EMAX+1; } hi*=(r+1); if(hi>EMAX) { hi=EMAX+1; } }
    ASSUME(r>=1 && lo<=b.entries && hi>b.entries);
    pow_guess=r+ND_range(-2,2);
  } else pow_guess=ND_range(-2,EMAX);
  long v=_book_maptype1_quantvals(&b);
  if(b.entries<1 || b.dim<1){ CHECK(v==0,"no lattice values for an empty or zero-dimensional book"); WITNESS_AT("degenerate book"); }
  else { CHECK(v==r,"lookup1_values: greatest r with r^dim <= entries"); if(pow_guess!=r) WITNESS_AT("guess corrected"); }
}
