/* C02 P-res — residue setup parser on arbitrary input (producer of V_res).
 * real code : res0_unpack, res0_free_info, icount (lib/res0.c)
 * symbolic  : packet contents and length through M-bitsrc; codebook context: books 1..256, three arbitrary book descriptors
 *             (dim 0..24, entries 0..2^24-1, maptype 0..2) shared round-robin by the 256 slots
 * assert    : memory-safe (booklist[512], secondstages[64], book_param[] indices); accept => V_res:
 *             1<=partitions<=64, cascades 0..255, sum(popcount) <= 512, groupbook<books with dim>=1 and partitions^dim <= entries,
 *             every stage book < books, maptype != 0 AND dim >= 1 (the fact vorbis_book_decodevs_add needs: it divides by dim);
 *             reject => object freed (leak check).
 */
#include "verif.h"
#include <stdlib.h>
#include <string.h>
#include <ogg/ogg.h>
#ifndef PMAX
#define PMAX 4
#endif
/* size bound: the 4th field read (partitions-1, 6 bits) is < PMAX; the per-partition loops are uniform */
#define BITSRC_HOOK(c,v) do{ if((c)==3) ASSUME((v)<PMAX); }while(0)
#include "bitsrc.c"
#include "res0.c"
int ov_ilog(ogg_uint32_t v){ int ret; for(ret=0;v;ret++)v>>=1; return ret; }
#define NBK 3
void harness(void){
  vorbis_info vi; codec_setup_info ci; memset(&vi,0,sizeof vi); memset(&ci,0,sizeof ci); vi.codec_setup=&ci;
  static static_codebook pool[NBK];
  for(int i=0;i<NBK;i++){ pool[i].dim=ND_range(0,24);  /* bound: dims <= 24 (the partvals loop runs at most dim times; 16-bit dims are outside the unrolling) */ pool[i].entries=ND_range(0,(1<<24)-1); pool[i].maptype=ND_irange(0,2); }
  ci.books=ND_irange(1,256);
  for(int i=0;i<256;i++) ci.book_param[i]=&pool[i%NBK];
  static unsigned char dummy[4]; oggpack_buffer opb; oggpack_readinit(&opb,dummy,(int)ND_range(0,600));
  vorbis_info_residue0 *info=(vorbis_info_residue0 *)res0_unpack(&vi,&opb);
  if(info){
    CHECK(info->partitions>=1 && info->partitions<=PMAX,"V_res: 1<=partitions<=64 (here <= PMAX by the stated bound)");
    CHECK(info->begin>=0 && info->begin<(1<<24) && info->end>=0 && info->end<(1<<24),"V_res: begin/end 24 bit");
    CHECK(info->grouping>=1 && info->grouping<=(1<<24),"V_res: grouping 1..2^24");
    CHECK(info->groupbook>=0 && info->groupbook<ci.books,"V_res: group book in range");
    static_codebook *g=ci.book_param[info->groupbook];
    CHECK(g->dim>=1,"V_res: group book dim>=1");
    CHECK(info->partvals>=1 && info->partvals<=g->entries,"V_res: partvals = partitions^dim <= entries");
    int acc=0;
    for(int j=0;j<PMAX;j++) if(j<info->partitions){ CHECK(info->secondstages[j]>=0 && info->secondstages[j]<=255,"V_res: cascade byte"); acc+=icount(info->secondstages[j]); }
    CHECK(acc<=512,"V_res: book list fits booklist[512]");
    int k=ND_irange(0,PMAX*8-1);                  /* arbitrary stage-book slot */
    if(k<acc){
      CHECK(info->booklist[k]>=0 && info->booklist[k]<ci.books,"V_res: stage book in range");
      CHECK(ci.book_param[info->booklist[k]]->maptype!=0,"V_res: stage book has a value mapping");
      CHECK(ci.book_param[info->booklist[k]]->dim>=1,"V_res: stage book dim>=1 (consumers divide by dim)");
      WITNESS_AT("accepted with a stage book");
    }
    WITNESS_AT("accepted");
    res0_free_info(info);
  } else WITNESS_AT("rejected");
}
