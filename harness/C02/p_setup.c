/* C02/C13 P-setup — the top level of the setup header parser on arbitrary input, and its clean-up.
 * real code : _vorbis_unpack_books, vorbis_info_clear (lib/info.c)
 * cut       : vorbis_staticbook_unpack / the floor, residue and mapping unpack hooks (own registry tables in the harness) -> contracts: NULL, or a
 *             heap object of the real type; their free_info counterparts free exactly one object and count; vorbis_staticbook_destroy,
 *             vorbis_book_clear, _vi_psy_free -> counting stubs.  Packet through M-bitsrc.
 * symbolic  : every field; count fields bounded to <= CNT (books: the first 8-bit field; times/floors/residues/maps/modes: the 6-bit fields)
 * assert    : memory-safe (type numbers index the registries inside their bounds: floor 0..1, residue 0..2, mapping 0; arrays of 64/256 slots);
 *             accept => every mode maps to an existing mapping, window/transform type 0, block flag 0/1, all counts >= 1, framing bit seen;
 *             reject => OV_EBADHEADER and vorbis_info_clear has released every object created so far exactly once (no leak, no double
 *             free) and zeroed the info; on acceptance a later vorbis_info_clear releases everything.
 */
#include "verif.h"
#include <stdlib.h>
#include <string.h>
#include <ogg/ogg.h>
#include "vorbis/codec.h"
#include "codec_internal.h"
#include "registry.h"
#ifndef CNT
#define CNT 2
#endif
#define BITSRC_HOOK2(c,bits,v) do{ if((c)==0) ASSUME((v)<CNT); if((bits)==6) ASSUME((v)<CNT); }while(0)
#include "bitsrc.c"
static int n_made=0, n_freed=0;
static vorbis_info_floor *fl_unpack(vorbis_info *vi,oggpack_buffer *o){ if(ND_BOOL()) return 0; n_made++; return calloc(1,8); }
static void fl_free(vorbis_info_floor *i){ CHECK(i!=0,"free_info gets an object"); n_freed++; free(i); }
static const vorbis_func_floor fl0={0,fl_unpack,0,fl_free,0,0,0}, fl1={0,fl_unpack,0,fl_free,0,0,0};
const vorbis_func_floor *const _floor_P[]={&fl0,&fl1};
static vorbis_info_residue *rs_unpack(vorbis_info *vi,oggpack_buffer *o){ if(ND_BOOL()) return 0; n_made++; return calloc(1,8); }
static void rs_free(vorbis_info_residue *i){ CHECK(i!=0,"free_info gets an object"); n_freed++; free(i); }
static const vorbis_func_residue rs0={0,rs_unpack,0,rs_free,0,0,0,0}, rs1={0,rs_unpack,0,rs_free,0,0,0,0}, rs2={0,rs_unpack,0,rs_free,0,0,0,0};
const vorbis_func_residue *const _residue_P[]={&rs0,&rs1,&rs2};
static vorbis_info_mapping *mp_unpack(vorbis_info *vi,oggpack_buffer *o){ if(ND_BOOL()) return 0; n_made++; return calloc(1,8); }
static void mp_free(vorbis_info_mapping *i){ CHECK(i!=0,"free_info gets an object"); n_freed++; free(i); }
static const vorbis_func_mapping mp0={0,mp_unpack,mp_free,0,0};
const vorbis_func_mapping *const _mapping_P[]={&mp0};
static_codebook *vorbis_staticbook_unpack(oggpack_buffer *o){ if(ND_BOOL()) return 0; n_made++; return calloc(1,sizeof(static_codebook)); }
void vorbis_staticbook_destroy(static_codebook *b){ CHECK(b!=0,"destroy gets a book"); n_freed++; free(b); }
void vorbis_book_clear(codebook *b){ }
void _vi_psy_free(vorbis_info_psy *i){ }
#include "info.c"
int ov_ilog(ogg_uint32_t v){ int ret; for(ret=0;v;ret++)v>>=1; return ret; }
void harness(void){
  vorbis_info vi; vorbis_info_init(&vi); vi.rate=44100; vi.channels=2;
  static unsigned char dummy[4]; oggpack_buffer opb; oggpack_readinit(&opb,dummy,(int)ND_range(0,120));
  int r=_vorbis_unpack_books(&vi,&opb);
  if(r==0){
    codec_setup_info *ci=vi.codec_setup;
    CHECK(ci->books>=1&&ci->books<=CNT && ci->floors>=1&&ci->floors<=CNT && ci->residues>=1&&ci->residues<=CNT && ci->maps>=1&&ci->maps<=CNT && ci->modes>=1&&ci->modes<=CNT,"accepted: every section has at least one entry");
    for(int i=0;i<CNT;i++){ if(i<ci->modes){ CHECK(ci->mode_param[i] && ci->mode_param[i]->mapping>=0 && ci->mode_param[i]->mapping<ci->maps,"every mode uses an existing mapping");
        CHECK(ci->mode_param[i]->blockflag>=0 && ci->mode_param[i]->blockflag<=1 && ci->mode_param[i]->windowtype==0 && ci->mode_param[i]->transformtype==0,"mode: block flag 0/1, window and transform type 0"); }
      if(i<ci->floors) CHECK(ci->floor_type[i]>=0 && ci->floor_type[i]<2 && ci->floor_param[i],"floor type 0..1 with an object");
      if(i<ci->residues) CHECK(ci->residue_type[i]>=0 && ci->residue_type[i]<3 && ci->residue_param[i],"residue type 0..2 with an object");
      if(i<ci->maps) CHECK(ci->map_type[i]==0 && ci->map_param[i],"mapping type 0 with an object"); }
    if(ci->modes==2 && ci->floors==2) WITNESS_AT("accepted with two modes and two floors");
    WITNESS_AT("accepted");
    vorbis_info_clear(&vi);
  }else{
    CHECK(r==OV_EBADHEADER,"rejected with OV_EBADHEADER");
    CHECK(vi.codec_setup==0 && vi.rate==0 && vi.channels==0,"a rejected setup header leaves the info cleared");
    if(n_made>=3) WITNESS_AT("rejected after three or more objects were built");
    WITNESS_AT("rejected");
  }
  CHECK(n_made==n_freed,"every sub-object created by the parser is released exactly once");
}
