/* C02 S-headerin — header packets presented in ANY order with ANY flags: the three-stage header state machine.
 * real code : vorbis_synthesis_headerin, vorbis_synthesis_idheader, _v_readstring (lib/info.c)
 * cut       : _vorbis_unpack_info / _vorbis_unpack_comment / _vorbis_unpack_books -> contracts (their own harnesses: rt-info, cm-unpack, P-*):
 *             succeed (rate != 0 / vendor != NULL / books > 0) or fail with OV_EBADHEADER/OV_EVERSION/OV_EFAULT leaving their object cleared
 * symbolic  : NCALL packets of 0..8 arbitrary bytes each (M-bitpack), arbitrary b_o_s flags, NULL packets; what each stage does
 * assert    : a stage runs only when the packet says "vorbis", carries its type (1,3,5) and every earlier stage has completed and it
 *             has not; the identification header additionally needs b_o_s; anything else is refused with the documented code WITHOUT
 *             touching info/comment state; the number of completed stages never decreases and only grows by one per accepted packet;
 *             vorbis_synthesis_idheader == 1 exactly for b_o_s + type 1 + "vorbis"; packets shorter than the 7-byte signature never reach a stage.
 */
#include "verif.h"
#include <stdlib.h>
#include <string.h>
#include <ogg/ogg.h>
#include "vorbis/codec.h"
#include "codec_internal.h"
#include "oggpack.c"
#ifndef NCALL
#define NCALL 4
#endif
static int g_stage_calls[3];
#include "info.c"
static int fail_code(void){ int r=ND_int(); ASSUME(r==OV_EBADHEADER||r==OV_EVERSION||r==OV_EFAULT); return r; }
static int _vorbis_unpack_info(vorbis_info *vi,oggpack_buffer *opb){ g_stage_calls[0]++; CHECK(vi->rate==0,"identification stage only on a fresh info"); if(ND_BOOL()) return fail_code(); vi->rate=44100; vi->channels=2; return 0; }
static int _vorbis_unpack_comment(vorbis_comment *vc,oggpack_buffer *opb){ g_stage_calls[1]++; CHECK(vc->vendor==0,"comment stage only once"); if(ND_BOOL()) return fail_code(); vc->vendor=malloc(1); return 0; }
static int _vorbis_unpack_books(vorbis_info *vi,oggpack_buffer *opb){ g_stage_calls[2]++; codec_setup_info *ci=vi->codec_setup; CHECK(ci && ci->books==0,"setup stage only once, on an initialised info"); if(ND_BOOL()) return fail_code(); ci->books=1; return 0; }
int ov_ilog(ogg_uint32_t v){ int ret; for(ret=0;v;ret++)v>>=1; return ret; }
void harness(void){
  vorbis_info vi; vorbis_comment vc; static codec_setup_info ci; memset(&vi,0,sizeof vi); memset(&vc,0,sizeof vc); vi.codec_setup=&ci;
  int stage=0;
  for(int k=0;k<NCALL;k++){
    static unsigned char pkt[8]; for(int i=0;i<8;i++) pkt[i]=ND_uchar();
    ogg_packet op; memset(&op,0,sizeof op); op.packet=pkt; op.bytes=ND_irange(0,8); op.b_o_s=ND_irange(0,1);
    int isnull=ND_BOOL();
    int sig= op.bytes>=7 && pkt[1]=='v'&&pkt[2]=='o'&&pkt[3]=='r'&&pkt[4]=='b'&&pkt[5]=='i'&&pkt[6]=='s';
    int idh=vorbis_synthesis_idheader(isnull?0:&op);
    CHECK(idh==(!isnull && op.b_o_s && op.bytes>=7 && pkt[0]==1 && sig),"idheader: b_o_s + type 1 + signature");
    int c0=g_stage_calls[0]+g_stage_calls[1]+g_stage_calls[2]; long rate0=vi.rate; char *v0=vc.vendor; int b0=ci.books;
    int r=vorbis_synthesis_headerin(&vi,&vc,isnull?0:&op);
    int c1=g_stage_calls[0]+g_stage_calls[1]+g_stage_calls[2];
    int eligible= !isnull && sig && ((pkt[0]==1 && stage==0 && op.b_o_s) || (pkt[0]==3 && stage==1) || (pkt[0]==5 && stage==2));
    if(!eligible){
      CHECK(c1==c0,"no stage runs for a packet that is out of order, of unknown type, unsigned, or lacks b_o_s on the identification header");
      CHECK(r==(isnull?OV_EBADHEADER: !sig?OV_ENOTVORBIS:OV_EBADHEADER),"refused with the documented code");
      CHECK(vi.rate==rate0 && vc.vendor==v0 && ci.books==b0,"a refused packet leaves the header state untouched");
      if(!isnull && sig && pkt[0]==5 && stage<2) WITNESS_AT("setup header before its predecessors refused");
    }else{
      CHECK(c1==c0+1 && g_stage_calls[stage]>=1,"exactly the stage that is due runs");
      if(r==0){ stage++; CHECK((stage>=1)==(vi.rate!=0) && (stage>=2)==(vc.vendor!=0) && (stage>=3)==(ci.books>0),"completed stages are reflected in info/comment/setup"); if(stage==3) WITNESS_AT("all three headers accepted in order"); }
      else { CHECK(r<0,"a failing stage returns a negative code"); WITNESS_AT("a due stage failed"); }
    }
  }
  if(vc.vendor) free(vc.vendor);
}
