/* C02 S-init-retry — history: vorbis_synthesis_init after a failed vorbis_synthesis_init, then the clear calls.
 * real code : vorbis_synthesis_init, _vds_shared_init (decode branch), vorbis_dsp_clear (lib/block.c),
 *             vorbis_info_clear (lib/info.c)
 * symbolic  : which codebook (if any) fails to initialise, on the first and on the second attempt; number of books 1..NB
 * cut       : vorbis_book_init_decode -> "fails or produces a built codebook" (ghost flag built), vorbis_staticbook_destroy
 *             -> frees a heap book, vorbis_book_clear -> zeroes; MDCT/look constructors -> small allocations (M-dsp)
 * assert    : after a failed init a retry either fails again or leaves EVERY codebook the decoder will use built;
 *             vorbis_info_clear / vorbis_dsp_clear after any of these outcomes free nothing twice and leak nothing.
 */
#include "verif.h"
#include <stdlib.h>
#include <string.h>
#include <ogg/ogg.h>
#include "block.c"
#include "info.c"
int ov_ilog(ogg_uint32_t v){ int ret; for(ret=0;v;ret++)v>>=1; return ret; }
/* contract stubs */
int vorbis_book_init_decode(codebook *c,const static_codebook *s){ memset(c,0,sizeof *c); if(ND_BOOL()){ return -1; } c->dim=s->dim; c->entries=s->entries; c->used_entries=1; return 0; }
void vorbis_staticbook_destroy(static_codebook *b){ if(b->allocedp){ free(b); } }
void vorbis_book_clear(codebook *b){ memset(b,0,sizeof *b); }
void mdct_init(mdct_lookup *l,int n){ l->n=n; l->trig=0; l->bitrev=0; }
void mdct_clear(mdct_lookup *l){}
void drft_clear(drft_lookup *l){}
void vorbis_bitrate_clear(bitrate_manager_state *bm){}
void _vp_global_free(vorbis_look_psy_global *g){}
void _vp_psy_clear(vorbis_look_psy *p){}
void _ve_envelope_clear(envelope_lookup *e){}
void _vi_psy_free(vorbis_info_psy *i){ free(i); }
static void *lookstub(vorbis_dsp_state *vd,void *i){ void *p=malloc(4); return p; }
static void freelook(void *p){ free(p); }
static void freeinfo(void *p){ free(p); }
static const vorbis_func_floor ff={0,0,&lookstub,&freeinfo,&freelook,0,0};
static const vorbis_func_residue rf={0,0,&lookstub,&freeinfo,&freelook,0,0,0};
static const vorbis_func_mapping mf={0,0,&freeinfo,0,0};
const vorbis_func_floor *const _floor_P[]={&ff,&ff};
const vorbis_func_residue *const _residue_P[]={&rf,&rf,&rf};
const vorbis_func_mapping *const _mapping_P[]={&mf};
#ifndef NB
#define NB 2
#endif
void harness(void){
  vorbis_info vi; vorbis_info_init(&vi); codec_setup_info *ci=vi.codec_setup; vi.channels=1; vi.rate=44100;
  ci->blocksizes[0]=64; ci->blocksizes[1]=64; ci->modes=1; ci->maps=1; ci->floors=1; ci->residues=1; ci->books=ND_irange(1,NB);
  ci->mode_param[0]=calloc(1,sizeof(vorbis_info_mode)); ci->map_param[0]=malloc(4); ci->floor_param[0]=malloc(4); ci->residue_param[0]=malloc(4);
  ci->floor_type[0]=1; ci->residue_type[0]=1;
  for(int i=0;i<NB;i++) if(i<ci->books){ static_codebook *s=calloc(1,sizeof *s); s->allocedp=1; s->dim=1; s->entries=2; ci->book_param[i]=s; }
  vorbis_dsp_state vd;
  int r1=vorbis_synthesis_init(&vd,&vi);
  if(r1){
    WITNESS_AT("first init failed");
    int r2=vorbis_synthesis_init(&vd,&vi);
    if(r2==0){
      for(int i=0;i<NB;i++) if(i<ci->books) CHECK(ci->fullbooks[i].used_entries==1,"retry succeeded => every codebook the decoder will use was built");
      WITNESS_AT("retry succeeded");
      vorbis_dsp_clear(&vd);
    } else WITNESS_AT("retry failed");
  } else { for(int i=0;i<NB;i++) if(i<ci->books) CHECK(ci->fullbooks[i].used_entries==1 && ci->book_param[i]==0,"init succeeded => all codebooks built, static books released"); vorbis_dsp_clear(&vd); }
  vorbis_info_clear(&vi);
  CHECK(vi.codec_setup==0,"info cleared");
  vorbis_info_clear(&vi);
}
