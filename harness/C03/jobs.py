import sys,os
sys.path.insert(0,os.path.dirname(os.path.dirname(os.path.abspath(__file__))))
from jobs_lib import vf,blk,other
def jobs(tier):
    return vf(tier,'C03')+blk(tier,lambda j:j.name.startswith('blockin-step'))[:2]+__import__('jobs_lib').lap(tier)[:2]
CLAIM={'text':'Per-function bounded model checking of vorbisfile from arbitrary handle states satisfying the representation invariant, callees cut to contract stubs that assert their preconditions: open/clear, the I/O leaf functions, backward page search (termination by recurrence check), packet fetch, page seek, sample seek, half-rate toggle, cross-lap argument plumbing.',
 'note':'Trusted: libogg framing and the libvorbis decode API as nondeterministic contract stubs (harness/vf/vf_env.h), callbacks nondeterministic with fault injection. Per-function (not whole-program) composition; <=3 links, <=4-6 framing events per call, <=3 pages per link. Not yet covered: _fetch_headers, _bisect_forward_serialno/_open_seekable2 (chain discovery), ov_raw_seek scan loop, ov_read_float, info accessors, _ov_getlap/_ov_splice bodies.'}
