import importlib.util as _u, os as _o
def _vf():
    p=_o.path.join(_o.path.dirname(_o.path.dirname(_o.path.abspath(__file__))),'vf','jobs_common.py'); sp=_u.spec_from_file_location('vfj',p); m=_u.module_from_spec(sp); sp.loader.exec_module(m); return m
def jobs(tier):
    return [j for j in _vf().vf_jobs(tier) if 'C03' in j.tags]
CLAIM=None
