/* C04 enc-base — submitting input and signalling end of input establish/preserve the encoder invariant I_enc.
 * real code : vorbis_analysis_buffer, vorbis_analysis_wrote, _preextrapolate_helper (lib/block.c)
 * cut       : vorbis_lpc_from_data, vorbis_lpc_predict (float DSP; M-dsp: write nothing the bookkeeping depends on)
 * symbolic  : encoder state before end of input (any amount already submitted, pre-extrapolation done or not), size of this
 *             write (any int; <=0 = end of input)
 * config    : -DE0 -DE1; 1 channel
 * assert    : a data write of n samples after vorbis_analysis_buffer(n) is accepted and advances the fill by n; a write beyond
 *             the buffer obtained is refused with OV_EINVAL and changes nothing; the end-of-input call leaves
 *             eofflag == samples held before it, exactly 3 long blocks of padding, and the encoder STARTED
 *             (preextrapolate set) however few samples were submitted - otherwise vorbis_analysis_blockout never flushes.
 */
#include "verif.h"
#include <stdlib.h>
#include <string.h>
#include <ogg/ogg.h>
#include "block.c"
int ov_ilog(ogg_uint32_t v){ int ret; for(ret=0;v;ret++)v>>=1; return ret; }
float vorbis_lpc_from_data(float *data,float *lpci,int n,int m){ return 0.f; }
void vorbis_lpc_predict(float *coeff,float *prime,int m,float *data,long n){}
#define BS0 (1<<E0)
#define BS1 (1<<E1)
#ifndef VMAX
#define VMAX 200
#endif
void harness(void){
  vorbis_info vi; codec_setup_info ci; memset(&vi,0,sizeof vi); memset(&ci,0,sizeof ci); vi.codec_setup=&ci; vi.channels=1; vi.rate=44100;
  ci.blocksizes[0]=BS0; ci.blocksizes[1]=BS1;
  vorbis_dsp_state v; private_state b; memset(&v,0,sizeof v); memset(&b,0,sizeof b); v.vi=&vi; v.backend_state=&b; v.analysisp=1;
  float *pv[1],*rv[1]; v.pcm=pv; v.pcmret=rv; v.pcm_storage=ND_irange(BS1,4*BS1); pv[0]=malloc(v.pcm_storage*sizeof(float));
  v.centerW=BS1/2; v.pcm_current=ND_irange(BS1/2,4*BS1); ASSUME(v.pcm_current<=v.pcm_storage);
  v.preextrapolate=ND_irange(0,1); ASSUME(v.preextrapolate || v.pcm_current-v.centerW<=BS1);   /* I_enc: extrapolation ran once more than a long block was held */
  v.eofflag=0;
  int cur0=v.pcm_current; int vals=ND_irange(-2,VMAX); int req=ND_irange(0,VMAX);
  float **buf=vorbis_analysis_buffer(&v,req);
  CHECK(buf==rv && rv[0]==pv[0]+cur0 && v.pcm_storage>=cur0+req,"analysis_buffer exposes room for the requested samples at the fill point");
  int sto=v.pcm_storage;
  int r=vorbis_analysis_wrote(&v,vals);
  if(vals>0){
    if(cur0+vals>sto){ CHECK(r==OV_EINVAL && v.pcm_current==cur0,"write beyond the buffer obtained is refused"); WITNESS_AT("refused"); }
    else { CHECK(r==0 && v.pcm_current==cur0+vals && v.eofflag==0,"accepted write advances the fill by its size");
      CHECK(v.preextrapolate || v.pcm_current-v.centerW<=BS1,"I_enc: extrapolation ran once more than a long block is held"); if(vals<=req) WITNESS_AT("accepted"); }
  }else{
    CHECK(r==0,"end of input accepted");
    CHECK(v.eofflag==cur0 && v.eofflag>0,"eofflag = samples held when the end was signalled");
    CHECK(v.pcm_current==v.eofflag+3*BS1 && v.pcm_current<=v.pcm_storage,"exactly three long blocks of padding");
    CHECK(v.preextrapolate==1,"the encoder is started by the end-of-input call however short the input");
    if(cur0-BS1/2<=32) WITNESS_AT("end of a very short input");
    WITNESS_AT("end of input");
  }
}
