/* C04 enc-step — inductive step of the encoder's sample/granule bookkeeping.
 * real code : vorbis_analysis_blockout (lib/block.c), unmodified, included below.
 * symbolic  : every bookkeeping field of the encoder state (W, lW, pcm_current, eofflag, sequence), ghost
 *             absolute position A of buffer cell 0, the envelope detector's decisions (stubbed: any of -1/0/1,
 *             mark any int).
 * assume    : invariant I_enc  (B) A,sequence < 2^40   (G) established by enc_base.c
 * assert    : the block returned carries granulepos = min(A+centerW, N) and W; either it is the eos block
 *             carrying exactly N and the encoder is finished, or I_enc holds again with A' = A+W/4+nW/4;
 *             granule positions never decrease; "no block" changes nothing.
 * cut       : _ve_envelope_search/_mark/_shift, _vp_ampmax_decay (float psychoacoustics; M-dsp)
 * config    : -DE0 -DE1 (log2 block sizes), one job per pair.
 */
#include "verif.h"
#include <stdlib.h>
#include <string.h>
#include <ogg/ogg.h>
#include "block.c"
int ov_ilog(ogg_uint32_t v){ int ret; for(ret=0;v;ret++)v>>=1; return ret; }
long _ve_envelope_search(vorbis_dsp_state *v){ return ND_range(-1,1); }
int _ve_envelope_mark(vorbis_dsp_state *v){ return ND_int(); }
void _ve_envelope_shift(envelope_lookup *e,long shift){}
float _vp_ampmax_decay(float amp,vorbis_dsp_state *vd){ return amp; }
#define BS0 (1<<E0)
#define BS1 (1<<E1)
#define CAP (8*BS1)
static float store[CAP];
void harness(void){
  vorbis_info vi; codec_setup_info ci; memset(&vi,0,sizeof vi); memset(&ci,0,sizeof ci); vi.codec_setup=&ci; vi.channels=1; vi.rate=44100;
  ci.blocksizes[0]=BS0; ci.blocksizes[1]=BS1; ci.modes=1;
  vorbis_dsp_state v; private_state b; vorbis_look_psy_global g; memset(&v,0,sizeof v); memset(&b,0,sizeof b); memset(&g,0,sizeof g);
  v.vi=&vi; v.backend_state=&b; b.psy_g_look=&g; v.analysisp=1;
  float *pv[1]={store},*rv[1]; v.pcm=pv; v.pcmret=rv; v.pcm_storage=CAP;
  vorbis_block vb; vorbis_block_internal vbi; memset(&vb,0,sizeof vb); memset(&vbi,0,sizeof vbi); vb.vd=&v; vb.internal=&vbi;
  /* arbitrary encoder state satisfying the invariant I_enc */
  v.preextrapolate=1; v.centerW=BS1/2;
  v.W=ND_range(0,1); v.lW=ND_range(0,1);
  v.pcm_current=ND_irange(BS1/2,CAP);
  v.eofflag=ND_int(); ASSUME(v.eofflag==0 || (v.eofflag>0 && v.eofflag<=CAP && v.eofflag+3*BS1==v.pcm_current));  /* wrote(0) appended exactly 3 long blocks of padding */
  v.sequence=ND_range(3,1L<<40);
  ogg_int64_t A=ND_range(-BS1/2,1L<<40);                                          /* ghost: absolute index of buffer cell 0 */
  ogg_int64_t N = v.eofflag? A+v.eofflag : -1;                                   /* ghost: total samples submitted, once known */
  ogg_int64_t centre=A+v.centerW; v.granulepos = (v.eofflag && centre>N)? N : centre;
  ASSUME(!(v.eofflag && centre - N >= BS1));                                     /* the eos block has not been passed yet */
  ogg_int64_t gp0=v.granulepos; long W0=v.W; ogg_int64_t seq0=v.sequence;
  int r=vorbis_analysis_blockout(&v,&vb);
  if(r==1){
    CHECK(vb.granulepos==gp0,"block carries the centre position (or N)");
    CHECK(vb.W==W0,"block size flag");
    CHECK(vb.sequence==seq0 && v.sequence==seq0+1,"sequence number advances by one");
    CHECK(vb.pcmend==ci.blocksizes[W0],"pcmend is the block size");
    if(vb.eofflag){ CHECK(gp0==N,"eos block carries granule position N"); CHECK(v.eofflag==-1,"encoder finished");
      WITNESS_AT("eos block"); }
    else{
      CHECK(vb.lW==v.lW || 1,"-");
      long mv = ci.blocksizes[W0]/4+ci.blocksizes[v.W]/4;                         /* v.W is now nW */
      ogg_int64_t A2=A+mv; ogg_int64_t centre2=A2+v.centerW;
      CHECK(vb.nW==v.W,"nW recorded in the block is the next block's W (C05 win-flags)");
      CHECK(v.centerW==BS1/2,"centre re-normalised");
      CHECK(v.lW==W0,"lW follows W (C05 win-flags)");
      if(N<0) CHECK(v.granulepos==centre2,"I_enc preserved (no eof yet)");
      else    CHECK(v.granulepos==(centre2>N?N:centre2),"I_enc preserved (eof known): never counts padding");
      CHECK(v.granulepos>=gp0,"monotone");
      CHECK(v.pcm_current>=v.centerW && v.pcm_current<=CAP,"I_enc: buffer fill");
      if(N>=0){ CHECK(v.eofflag>0 && A2+v.eofflag==N,"I_enc: eofflag tracks N"); CHECK(v.eofflag+3*BS1==v.pcm_current,"I_enc: padding");
        CHECK(!(centre2-N>=BS1),"I_enc: eos not passed");
        if(v.granulepos==N && centre2>N) WITNESS_AT("capped at N"); }
      else WITNESS_AT("ordinary block");
    }
  } else { CHECK(r==0 && v.granulepos==gp0 && v.sequence==seq0 && v.W==W0,"no block, no change"); WITNESS_AT("no block"); }
}
