from vlib.runner import Job
def jobs(tier):
    J=[]
    pairs=[(6,6),(6,7),(6,8),(7,7),(8,11)] if tier=='quick' else [(6,6),(6,7),(6,8),(7,7),(8,11),(6,13),(11,13),(13,13)]
    for e0,e1 in pairs:
        J.append(Job('enc-step-%d-%d'%(1<<e0,1<<e1),'C04/enc_step.c',defs=['-DE0=%d'%e0,'-DE1=%d'%e1],unwind=3,slice=True,
            witnesses=['eos block','capped at N','ordinary block','no block'],
            functions=['vorbis_analysis_blockout'],models=['M-dsp: envelope search/mark = any decision; _vp_ampmax_decay identity'],
            bounds='block sizes (%d,%d) concrete; every other field symbolic under I_enc; A,sequence<2^40; inductive step => any N, any write partition'%(1<<e0,1<<e1)))
    for e0,e1 in ([(6,6),(6,7)] if tier=='quick' else [(6,6),(6,7),(6,8),(7,7)]):
        J.append(Job('enc-base-%d-%d'%(1<<e0,1<<e1),'C04/enc_base.c',defs=['-DE0=%d'%e0,'-DE1=%d'%e1,'-DVMAX=100'],unwind=4,unwindset=[('_preextrapolate_helper',r'j<v->pcm_current',2*(1<<e1)+104)],slice=True,
            witnesses=['refused','accepted','end of a very short input','end of input'],functions=['vorbis_analysis_buffer','vorbis_analysis_wrote','_preextrapolate_helper'],
            models=['M-dsp: LPC extrapolation cut (writes only float data)'],bounds='block sizes (%d,%d), fill <= 4 long blocks, writes of -2..100 samples, 1 channel'%(1<<e0,1<<e1)))
    import importlib.util as _u, os as _o
    pth=_o.path.join(_o.path.dirname(_o.path.dirname(_o.path.abspath(__file__))),'block','jobs_common.py'); sp=_u.spec_from_file_location('blk',pth); m=_u.module_from_spec(sp); sp.loader.exec_module(m)
    J+=[j for j in m.blockin_jobs(tier) if j.name.startswith('blockin-step')]
    import sys; sys.path.insert(0,_o.path.dirname(_o.path.dirname(_o.path.abspath(__file__))))
    from jobs_lib import vf as _vf
    J+=[j for j in _vf(tier,'C04')]
    # the packet an application takes straight from vorbis_analysis carries the BLOCK's granule position (C04-m5); the C05 job list itself
    # borrows enc-step from here, hence the recursion guard
    if not _o.environ.get('_C04_NOREC'):
        _o.environ['_C04_NOREC']='1'
        try:
            from jobs_lib import other as _other
            J+=_other('C05',tier,lambda j:j.name=='analysis-pkt')
        finally: del _o.environ['_C04_NOREC']
    return J
CLAIM={'text':'(Also: the initial PCM offset of a link - what ov_pcm_total subtracts - equals the first positioned page minus the samples decoded up to it, F-initpcm; the packet taken directly from vorbis_analysis carries the block granule position, analysis-pkt.) Inductive-step model checking of the real encoder block scheduler (vorbis_analysis_blockout) from every state satisfying the invariant I_enc, plus (as they are added) the decoder-side step and base cases; and of the decoder accumulator (vorbis_synthesis_blockin: a block exposes (lW/4+W/4)>>hs samples, the eos block is trimmed to its granule position, granule tracking); the end-of-link page search of vorbisfile returns offset, serial number and granule position of ONE page (F-prevserial: what ov_pcm_total is computed from, also in multiplexed links); decides the sample-count/granule bookkeeping for every N and every write partition at the listed block-size pairs.',
 'note':'Trusted: CBMC C semantics; psychoacoustic decisions (_ve_envelope_search/_mark) modelled as arbitrary; float DSP is outside; invariant I_enc as written in harness/C04/enc_step.c. Bounds: concrete block-size pairs per job, ghost positions < 2^40.'}
