/* C05 analysis-pkt — the packet handed out directly by vorbis_analysis is the whole bit stream the mapping wrote.
 * real code : vorbis_analysis (lib/analysis.c)
 * cut       : _mapping_P[0]->forward -> writes an arbitrary number of bits (0..MAXBITS) into vb->opb (or fails); bit-packer =
 *             M-bitpack; vorbis_bitrate_managed -> ghost flag
 * assert    : success => packet = the block's buffer, length = ALL bytes holding written bits (a trailing partial byte is
 *             part of the packet: the decoder must be able to read every bit the encoder wrote), b_o_s 0, eos/granulepos/packetno
 *             from the block; managed encoder + direct packet request => OV_EINVAL; mapping failure propagates.
 */
#include "verif.h"
#include <stdlib.h>
#include <string.h>
#include <ogg/ogg.h>
#if !VERIF_NATIVE
#include "oggpack.c"
#endif
#include "vorbis/codec.h"
#include "codec_internal.h"
#ifndef MAXBITS
#define MAXBITS 40
#endif
static int g_bits, g_fail, g_managed;
static int fwd(vorbis_block *vb){ if(g_fail) return -1; for(int i=0;i<MAXBITS;i++) if(i<g_bits) oggpack_write(&vb->opb,ND_uint()&1,1); return 0; }
static const vorbis_func_mapping mf={0,0,0,&fwd,0};
const vorbis_func_mapping *const _mapping_P[]={&mf};
int vorbis_bitrate_managed(vorbis_block *vb){ return g_managed; }
#include "analysis.c"
void harness(void){
  vorbis_block vb; vorbis_block_internal vbi; memset(&vb,0,sizeof vb); memset(&vbi,0,sizeof vbi); vb.internal=&vbi;
  oggpack_writeinit(&vb.opb); static oggpack_buffer blobs[PACKETBLOBS];
  for(int i=0;i<PACKETBLOBS;i++){ if(i==PACKETBLOBS/2) vbi.packetblob[i]=&vb.opb; else { oggpack_writeinit(&blobs[i]); vbi.packetblob[i]=&blobs[i]; } }
  g_bits=ND_irange(0,MAXBITS); g_fail=ND_BOOL(); g_managed=ND_BOOL();
  vb.eofflag=ND_irange(0,1); vb.granulepos=ND_long(); vb.sequence=ND_long();
  ogg_packet op; memset(&op,0,sizeof op); int want_op=ND_BOOL();
  int r=vorbis_analysis(&vb,want_op?&op:0);
  if(g_fail){ CHECK(r==-1,"mapping failure propagates"); }
  else if(want_op && g_managed){ CHECK(r==OV_EINVAL,"managed encoder: direct packet request refused"); WITNESS_AT("managed refused"); }
  else { CHECK(r==0,"analysis succeeds");
    if(want_op){ CHECK(op.packet==oggpack_get_buffer(&vb.opb),"packet is the block's buffer");
      CHECK(op.bytes==(g_bits+7)/8,"packet length covers every written bit (partial last byte included)");
      CHECK(op.b_o_s==0 && op.e_o_s==vb.eofflag && op.granulepos==vb.granulepos && op.packetno==vb.sequence,"packet carries the block's eos flag, granule position and sequence");
      if(g_bits%8) WITNESS_AT("partial last byte"); } }
  for(int i=0;i<PACKETBLOBS;i++) if(i!=PACKETBLOBS/2) oggpack_writeclear(&blobs[i]); oggpack_writeclear(&vb.opb);
}
