/* C05 besterror — the residue VQ search only ever selects a codebook entry that HAS a codeword.
 * real code : local_book_besterror (lib/res0.c)
 * symbolic  : lattice codebook (maptype 1) with dim DM, QVN values per dimension (entries = QVN^DM), minval/delta small, any
 *             subset of entries unused (length 0) but at least one used; the vector to encode (any small ints)
 * assert    : memory-safe; the index returned is in range and its codeword length is > 0 (otherwise vorbis_book_encode writes
 *             nothing for it and the decoder loses sync - "consumes bit for bit").
 */
#include "verif.h"
#include <stdlib.h>
#include <string.h>
#include <ogg/ogg.h>
#include "res0.c"
int ov_ilog(ogg_uint32_t v){ int ret; for(ret=0;v;ret++)v>>=1; return ret; }
#ifndef DM
#define DM 2
#endif
#ifndef QVN
#define QVN 3
#endif
#if DM==1
#define ENT QVN
#else
#define ENT (QVN*QVN)
#endif
void harness(void){
  static_codebook sc; codebook b; memset(&sc,0,sizeof sc); memset(&b,0,sizeof b); b.c=&sc;
  char ll[ENT]; int any=0; for(int i=0;i<ENT;i++){ ll[i]=(char)ND_irange(0,3); any|=ll[i]; } ASSUME(any); sc.lengthlist=ll; sc.entries=ENT; sc.dim=DM;
  b.dim=DM; b.entries=ENT; b.quantvals=QVN; b.delta=ND_irange(1,3); b.minval=-(b.delta*(QVN>>1));    /* centred lattice, as the encoder books are */
  int a[8], a0[8]; for(int i=0;i<8;i++){ a[i]= i<DM? ND_irange(-12,12):0; a0[i]=a[i]; }
  int idx=local_book_besterror(&b,a);
  CHECK(idx>=0 && idx<ENT,"selected entry in range");
  CHECK(ll[idx]>0,"selected entry has a codeword (length > 0)");
  if(ll[0]==0) WITNESS_AT("nearest used entry searched");
  if(ll[idx]>0 && idx>0) WITNESS_AT("direct hit");
}
