import importlib.util, os
from vlib.runner import Job
M=['M-bitpack (models/oggpack.c, validated against libogg.a by tools/diff_oggpack.c)']
def _other(pid):
    p=os.path.join(os.path.dirname(os.path.dirname(os.path.abspath(__file__))),pid,'jobs.py')
    spec=importlib.util.spec_from_file_location('jobs_'+pid,p); m=importlib.util.module_from_spec(spec); spec.loader.exec_module(m); return m
def jobs(tier):
    J=[]
    q=tier=='quick'
    J.append(Job('rt-info','C05/rt_info.c',defs=['-DOGGPACK_MODEL_CAP=64'],unwind=34,native_link=['-logg'],witnesses=['accepted'],models=M,
        functions=['_vorbis_pack_info','vorbis_synthesis_headerin','_vorbis_unpack_info','vorbis_info_clear'],bounds='all field values (channels 1..255, rate 1..2^31-1, 32-bit bitrates, block sizes 2^6..2^13)'))
    for np in ([2] if q else [2,3]):
        J.append(Job('rt-res-p%d'%np,'C05/rt_res.c',defs=['-DNP=%d'%np,'-DOGGPACK_MODEL_CAP=64'],unwind=10,unwindset=[('harness',r'i<256',257),('harness',r'j<NP\*8',np*8+1),('res0_pack',r'j<acc',np*8+1),('res0_unpack',r'j<acc',np*8+1)],
            native_link=['-logg'],witnesses=['accepted','accepted with more than 8 stage books'],models=M,functions=['res0_pack','res0_unpack','icount','res0_free_info'],
            bounds='<=%d partitions, cascades 0..255, 24-bit begin/end/grouping, books 1..256'%np,weight=3))
    for chmax,smax,cs in ([(3,2,2)] if q else [(3,2,2),(4,3,3),(8,2,2)]):
        J.append(Job('rt-map-c%d-s%d-k%d'%(chmax,smax,cs),'C05/rt_map.c',defs=['-DCHMAX=%d'%chmax,'-DSMAX=%d'%smax,'-DCSMAX=%d'%cs,'-DOGGPACK_MODEL_CAP=64'],unwind=max(min(chmax,8),smax,cs)+2,
            native_link=['-logg'],witnesses=['accepted']+(['accepted with submaps and coupling'] if smax>1 else []),models=M,functions=['mapping0_pack','mapping0_unpack','mapping0_free_info'],
            bounds='channels 1..%d, submaps 1..%d, coupling steps 0..%d'%(chmax,smax,cs),weight=2))
    shapes=[('a',[0,1],[1,2],[0,1],6),('b',[1,1,0],[2,1],[2,0],7)] if q else [('a',[0,1],[1,2],[0,1],6),('b',[1,1,0],[2,1],[2,0],7),('c',[0],[3],[3],4),('e',[],[1],[0],5)]
    for nm,pc,dim,sub,rb in shapes:
        npart=len(pc); maxc=max(pc) if pc else 0; dmax=max(dim)
        J.append(Job('rt-floor1-%s'%nm,'C05/rt_floor1.c',defs=['-DNPART=%d'%npart,'-DMAXC=%d'%maxc,'-DDMAX=%d'%dmax,'-DRB=%d'%rb,'-DPCLIST=%s'%(','.join(map(str,pc)) or '0'),'-DDIMLIST=%s'%','.join(map(str,dim)),'-DSUBLIST=%s'%','.join(map(str,sub)),'-DOGGPACK_MODEL_CAP=128'],
            unwind=max(17,npart*dmax+4),native_link=['-logg'],witnesses=['accepted'],models=M+['M-libc qsort = insertion sort (models/qsort_small.c)'],
            functions=['floor1_pack','floor1_unpack','icomp','floor1_free_info'],bounds='shape: partition classes %s, class dims %s, subclass bits %s, rangebits %d; books/posts/mult symbolic'%(pc,dim,sub,rb),weight=3))
    for dm,qv in ([(2,3)] if q else [(1,5),(2,3),(2,5)]):
        J.append(Job('besterror-d%d-q%d'%(dm,qv),'C05/besterror.c',defs=['-DDM=%d'%dm,'-DQVN=%d'%qv],unwind=max(qv**dm,8)+2,witnesses=['nearest used entry searched','direct hit'],
            functions=['local_book_besterror'],models=[],bounds='lattice book dim %d x %d values, any used/unused pattern, vector components -12..12, delta 1..3'%(dm,qv),weight=2))
    J.append(Job('analysis-pkt','C05/analysis_pkt.c',defs=['-DOGGPACK_MODEL_CAP=32','-DMAXBITS=%d'%(24 if q else 48)],unwind=(24 if q else 48)+2,unwindset=[('harness',r'i<PACKETBLOBS',16),('vorbis_analysis',None,16)],native_link=['-logg'],
        witnesses=['managed refused','partial last byte'],models=M,functions=['vorbis_analysis'],bounds='mapping writes 0..%d bits'%(24 if q else 48),weight=2))
    # shared harnesses: window-flag agreement (C04 enc-step), managed truncation (C14 br-step), comment header layout (C16 cm-pack)
    c04=[j for j in _other('C04').jobs(tier) if j.name.startswith('enc-step')][:2 if q else 99]
    c14=[j for j in _other('C14').jobs(tier)][:1 if q else 4]
    c16=[j for j in _other('C16').jobs(tier) if j.name.startswith('cm-pack')][:1 if q else 99]
    return J+c04+c14+c16
CLAIM={'text':'Bounded model checking of pack->unpack round trips on the real header packers/unpackers (identification, comment layout, floor 1, residue, mapping) through a validated bit-packer model, plus the encoder window-flag sequence (inductive) and the managed-mode truncation rule: accepted, field-for-field equal, bit-exact consumption.',
 'note':'Trusted: bit-packer model; qsort as insertion sort. Bounds: structure sizes per job (<=2-4 partitions, <=3 channels unless stated). Not claimed: codebook round trip of the 40-book templates, audio-packet bit-exactness of floor1_encode/_01forward (value-level float paths), which are outside the bounds built so far.'}
