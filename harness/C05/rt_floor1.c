/* C05 rt-floor1 — floor 1 setup round trip.
 * real code : floor1_pack, floor1_unpack, floor1_free_info, icomp (lib/floor1.c); M-bitpack; qsort = executable insertion sort
 * config    : the SHAPE of the floor (partition classes PCLIST, per-class dimensions DIMLIST and subclass bits SUBLIST, rangebits RB)
 *             is configuration, one job per shape: with a symbolic shape every field position is symbolic and the query does
 *             not finish in 900 s.
 * symbolic  : class master books, subclass books (-1..254), mult 1..4, distinct post values < 2^RB, ci.books
 * assert    : accepted; every field equal; bits read == bits written
 */
#include "verif.h"
#include <stdlib.h>
#include <string.h>
#include <ogg/ogg.h>
#if !VERIF_NATIVE
#include "oggpack.c"
#include "qsort_small.c"
#endif
#include "floor1.c"
int ov_ilog(ogg_uint32_t v){ int ret; for(ret=0;v;ret++)v>>=1; return ret; }
#ifndef NPART
#define NPART 2
#endif
#ifndef MAXC
#define MAXC 1
#endif
#ifndef DMAX
#define DMAX 2
#endif
#ifndef RB
#define RB 6
#endif
#define NPOST (NPART*DMAX+2)
void harness(void){
  vorbis_info vi; codec_setup_info ci; memset(&vi,0,sizeof vi); memset(&ci,0,sizeof ci); vi.codec_setup=&ci; ci.books=ND_irange(1,256);
  vorbis_info_floor1 in; memset(&in,0,sizeof in);
  static const int PC[]={PCLIST}; static const int DIM[]={DIMLIST}; static const int SUBS[]={SUBLIST};
  in.partitions=NPART; int maxclass=-1;
  for(int j=0;j<NPART;j++){ in.partitionclass[j]=PC[j]; if(PC[j]>maxclass)maxclass=PC[j]; }
  for(int j=0;j<=MAXC;j++) if(j<=maxclass){
    in.class_dim[j]=DIM[j]; in.class_subs[j]=SUBS[j];
    if(in.class_subs[j]){ in.class_book[j]=ND_irange(0,255); ASSUME(in.class_book[j]<ci.books); }
    for(int k=0;k<8;k++) if(k<(1<<in.class_subs[j])){ in.class_subbook[j][k]=ND_irange(-1,254); ASSUME(in.class_subbook[j][k]<ci.books); }
  }
  in.mult=ND_irange(1,4); int rangebits=RB;
  int count=0; for(int j=0;j<NPART;j++) count+=in.class_dim[in.partitionclass[j]];
  in.postlist[0]=0; in.postlist[1]=1<<rangebits;
  for(int k=0;k<NPART*DMAX;k++) if(k<count){ int t=ND_irange(1,(1<<RB)-1); in.postlist[k+2]=t;
    for(int m=0;m<k;m++) ASSUME(in.postlist[m+2]!=t); }
  oggpack_buffer w; oggpack_writeinit(&w);
  floor1_pack((vorbis_info_floor *)&in,&w);
  long nbits=oggpack_bits(&w);
  oggpack_buffer r; oggpack_readinit(&r,oggpack_get_buffer(&w),oggpack_bytes(&w));
  vorbis_info_floor1 *out=(vorbis_info_floor1 *)floor1_unpack(&vi,&r);
  CHECK(out!=0,"decoder accepts the floor 1 setup the encoder packs");
  if(out){
    CHECK(out->partitions==in.partitions && out->mult==in.mult,"partitions / multiplier");
    for(int j=0;j<NPART;j++) if(j<in.partitions) CHECK(out->partitionclass[j]==in.partitionclass[j],"partition classes");
    for(int j=0;j<=MAXC;j++) if(j<=maxclass){
      CHECK(out->class_dim[j]==in.class_dim[j] && out->class_subs[j]==in.class_subs[j],"class dimension / subclass bits");
      if(in.class_subs[j]) CHECK(out->class_book[j]==in.class_book[j],"class master book");
      for(int k=0;k<8;k++) if(k<(1<<in.class_subs[j])) CHECK(out->class_subbook[j][k]==in.class_subbook[j][k],"subclass books");
    }
    for(int k=0;k<NPOST;k++) if(k<count+2) CHECK(out->postlist[k]==in.postlist[k],"post list (rangebits derived from postlist[1])");
    CHECK(oggpack_bits(&r)==nbits,"decoder consumes exactly the bits written");
    WITNESS_AT("accepted");
    floor1_free_info(out);
  }
  oggpack_writeclear(&w);
}
