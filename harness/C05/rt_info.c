/* C05 rt-info — identification header round trip.
 * real code : _vorbis_pack_info, _vorbis_unpack_info, _v_readstring (lib/info.c); M-bitpack read+write
 * symbolic  : channels 1..255, rate 1..2^31-1, the three bitrate fields (any 32-bit value), block sizes 2^6..2^13
 * assert    : pack succeeds; decoder accepts; all fields equal; bits read == bits written; the layout equals spec 4.2.2
 */
#include "verif.h"
#include <stdlib.h>
#include <string.h>
#include <ogg/ogg.h>
#if !VERIF_NATIVE
#include "oggpack.c"
#endif
#include "info.c"
int ov_ilog(ogg_uint32_t v){ int ret; for(ret=0;v;ret++)v>>=1; return ret; }
void harness(void){
  vorbis_info vi; codec_setup_info ci; memset(&vi,0,sizeof vi); memset(&ci,0,sizeof ci); vi.codec_setup=&ci;
  vi.channels=ND_irange(1,255); vi.rate=ND_range(1,0x7fffffffL);
  vi.bitrate_upper=ND_range(-0x80000000L,0x7fffffffL); vi.bitrate_nominal=ND_range(-0x80000000L,0x7fffffffL); vi.bitrate_lower=ND_range(-0x80000000L,0x7fffffffL);
  int b0=ND_irange(6,13),b1=ND_irange(6,13); ASSUME(b1>=b0);
  ci.blocksizes[0]=1L<<b0; ci.blocksizes[1]=1L<<b1;
  oggpack_buffer w; oggpack_writeinit(&w);
  int pr=_vorbis_pack_info(&w,&vi);
  CHECK(pr==0,"encoder packs its identification header");
  long nbytes=oggpack_bytes(&w); long nbits=oggpack_bits(&w);
  CHECK(nbits==233 && nbytes==30,"identification header is 233 bits = 30 bytes (spec 4.2.2)");
  unsigned char *p=oggpack_get_buffer(&w);
  CHECK(p[0]==1 && p[1]=='v' && p[6]=='s' && p[7]==0 && p[10]==0 && p[11]==(unsigned char)vi.channels,"preamble, version 0, channels at byte 11");
  CHECK(p[28]==(unsigned char)(b0|(b1<<4)) && p[29]==1,"block size exponents and framing bit");
  ogg_packet op; memset(&op,0,sizeof op); op.packet=p; op.bytes=nbytes; op.b_o_s=1;
  vorbis_info vo; vorbis_info_init(&vo); vorbis_comment vc; vorbis_comment_init(&vc);
  int ur=vorbis_synthesis_headerin(&vo,&vc,&op);
  CHECK(ur==0,"decoder accepts the encoder's identification header");
  if(ur==0){
    codec_setup_info *co=vo.codec_setup;
    CHECK(vo.version==0 && vo.channels==vi.channels && vo.rate==vi.rate,"same channels and rate");
    CHECK(vo.bitrate_upper==vi.bitrate_upper && vo.bitrate_nominal==vi.bitrate_nominal && vo.bitrate_lower==vi.bitrate_lower,"same bitrate fields");
    CHECK(co->blocksizes[0]==ci.blocksizes[0] && co->blocksizes[1]==ci.blocksizes[1],"same block sizes");
    WITNESS_AT("accepted");
  }
  vorbis_info_clear(&vo); oggpack_writeclear(&w);
}
