/* C05 rt-map — mapping setup round trip.
 * real code : mapping0_pack, mapping0_unpack, mapping0_free_info (lib/mapping0.c); M-bitpack
 * symbolic  : channels 1..CHMAX (field width ilog(ch-1)), submaps 1..SMAX, coupling steps 0..CSMAX with mag!=ang<channels,
 *             chmuxlist<submaps, floor/residue submap numbers < ci.floors/residues (1..64)
 * assert    : accepted; every field equal; bits read == bits written
 */
#include "verif.h"
#include <stdlib.h>
#include <string.h>
#include <ogg/ogg.h>
#if !VERIF_NATIVE
#include "oggpack.c"
#endif
#include "mapping0.c"
int ov_ilog(ogg_uint32_t v){ int ret; for(ret=0;v;ret++)v>>=1; return ret; }
#ifndef CHMAX
#define CHMAX 3
#endif
#ifndef SMAX
#define SMAX 2
#endif
#ifndef CSMAX
#define CSMAX 2
#endif
void harness(void){
  vorbis_info vi; codec_setup_info ci; memset(&vi,0,sizeof vi); memset(&ci,0,sizeof ci); vi.codec_setup=&ci;
  vi.channels=ND_irange(1,CHMAX); ci.floors=ND_irange(1,64); ci.residues=ND_irange(1,64);
  vorbis_info_mapping0 in; memset(&in,0,sizeof in);
  in.submaps=ND_irange(1,SMAX); in.coupling_steps=ND_irange(0,CSMAX);
  for(int i=0;i<CSMAX;i++) if(i<in.coupling_steps){ in.coupling_mag[i]=ND_irange(0,CHMAX-1); in.coupling_ang[i]=ND_irange(0,CHMAX-1);
    ASSUME(in.coupling_mag[i]!=in.coupling_ang[i] && in.coupling_mag[i]<vi.channels && in.coupling_ang[i]<vi.channels); }
  if(in.submaps>1) for(int i=0;i<CHMAX;i++) if(i<vi.channels){ in.chmuxlist[i]=ND_irange(0,SMAX-1); ASSUME(in.chmuxlist[i]<in.submaps); }
  for(int i=0;i<SMAX;i++) if(i<in.submaps){ in.floorsubmap[i]=ND_irange(0,63); in.residuesubmap[i]=ND_irange(0,63); ASSUME(in.floorsubmap[i]<ci.floors && in.residuesubmap[i]<ci.residues); }
  oggpack_buffer w; oggpack_writeinit(&w);
  mapping0_pack(&vi,(vorbis_info_mapping *)&in,&w);
  long nbits=oggpack_bits(&w);
  oggpack_buffer r; oggpack_readinit(&r,oggpack_get_buffer(&w),oggpack_bytes(&w));
  vorbis_info_mapping0 *out=(vorbis_info_mapping0 *)mapping0_unpack(&vi,&r);
  CHECK(out!=0,"decoder accepts the mapping setup the encoder packs");
  if(out){
    CHECK(out->submaps==in.submaps && out->coupling_steps==in.coupling_steps,"submaps / coupling steps");
    for(int i=0;i<CSMAX;i++) if(i<in.coupling_steps) CHECK(out->coupling_mag[i]==in.coupling_mag[i] && out->coupling_ang[i]==in.coupling_ang[i],"coupling pairs");
    for(int i=0;i<CHMAX;i++) if(i<vi.channels) CHECK(out->chmuxlist[i]==in.chmuxlist[i],"channel multiplex list");
    for(int i=0;i<SMAX;i++) if(i<in.submaps) CHECK(out->floorsubmap[i]==in.floorsubmap[i] && out->residuesubmap[i]==in.residuesubmap[i],"floor/residue per submap");
    CHECK(oggpack_bits(&r)==nbits,"decoder consumes exactly the bits written");
    if(in.submaps>1 && in.coupling_steps>0) WITNESS_AT("accepted with submaps and coupling");
    WITNESS_AT("accepted");
    mapping0_free_info(out);
  }
  oggpack_writeclear(&w);
}
