/* C05 rt-res — residue setup round trip.
 * real code : res0_pack, res0_unpack, res0_free_info, icount (lib/res0.c); M-bitpack
 * symbolic  : V_res object: begin,end < 2^24, grouping 1..2^24, partitions 1..NP, secondstages 0..255, booklist, groupbook;
 *             codebook context: books 1..256, group book dim/entries such that partitions^dim <= entries, stage books maptype!=0
 * assert    : unpack accepts; every field equal (incl. the 3+1+5-bit cascade split); bits read == bits written
 */
#include "verif.h"
#include <stdlib.h>
#include <string.h>
#include <ogg/ogg.h>
#if !VERIF_NATIVE
#include "oggpack.c"
#endif
#include "res0.c"
int ov_ilog(ogg_uint32_t v){ int ret; for(ret=0;v;ret++)v>>=1; return ret; }
#ifndef NP
#define NP 3
#endif
void harness(void){
  vorbis_info vi; codec_setup_info ci; memset(&vi,0,sizeof vi); memset(&ci,0,sizeof ci); vi.codec_setup=&ci;
  static static_codebook gb, sb;     /* every booklist entry resolves to sb, the group book to gb */
  ci.books=ND_irange(1,256);
  for(int i=0;i<256;i++) ci.book_param[i]=&sb;
  sb.maptype=ND_irange(1,2); sb.dim=ND_irange(1,8);
  vorbis_info_residue0 in; memset(&in,0,sizeof in);
  in.begin=ND_range(0,(1<<24)-1); in.end=ND_range(0,(1<<24)-1); in.grouping=ND_irange(1,1<<24);
  in.partitions=ND_irange(1,NP); in.groupbook=ND_irange(0,255); ASSUME(in.groupbook<ci.books);
  ci.book_param[in.groupbook]=&gb; gb.maptype=ND_irange(0,2); gb.dim=ND_irange(1,3); gb.entries=ND_range(1,1<<20);
  { long pv=1; for(int d=0;d<3;d++) if(d<gb.dim) pv*=in.partitions; ASSUME(pv<=gb.entries); in.partvals=(int)pv; }
  int acc=0;
  for(int j=0;j<NP;j++) if(j<in.partitions){ in.secondstages[j]=ND_irange(0,255); acc+=icount(in.secondstages[j]); }
  for(int j=0;j<NP*8;j++) if(j<acc){ in.booklist[j]=ND_irange(0,255); ASSUME(in.booklist[j]<ci.books && in.booklist[j]!=in.groupbook); }
  oggpack_buffer w; oggpack_writeinit(&w);
  res0_pack((vorbis_info_residue *)&in,&w);
  long nbits=oggpack_bits(&w);
  oggpack_buffer r; oggpack_readinit(&r,oggpack_get_buffer(&w),oggpack_bytes(&w));
  vorbis_info_residue0 *out=(vorbis_info_residue0 *)res0_unpack(&vi,&r);
  CHECK(out!=0,"decoder accepts the residue setup the encoder packs");
  if(out){
    CHECK(out->begin==in.begin && out->end==in.end && out->grouping==in.grouping,"begin/end/grouping");
    CHECK(out->partitions==in.partitions && out->groupbook==in.groupbook && out->partvals==in.partvals,"partitions/groupbook/partvals");
    for(int j=0;j<NP;j++) if(j<in.partitions) CHECK(out->secondstages[j]==in.secondstages[j],"cascade (3+1+5 bit split)");
    for(int j=0;j<NP*8;j++) if(j<acc) CHECK(out->booklist[j]==in.booklist[j],"book list");
    CHECK(oggpack_bits(&r)==nbits,"decoder consumes exactly the bits written");
    if(acc>=9) WITNESS_AT("accepted with more than 8 stage books");
    WITNESS_AT("accepted");
    res0_free_info(out);
  }
  oggpack_writeclear(&w);
}
