import sys,os
sys.path.insert(0,os.path.dirname(os.path.dirname(os.path.abspath(__file__))))
from jobs_lib import vf,blk,other
def jobs(tier):
    return vf(tier,'C07')+other('C02',tier,lambda j:j.name.startswith('K-synth'))+other('C17',tier,lambda j:j.name=='rd-pack-w2-s1-be0')+blk(tier,lambda j:j.name.startswith('blockin-step'))[:2]
CLAIM={'text':'Bounded model checking of the position bookkeeping of the real seek and read code over abstract page/packet sources: page seek lands on the right page of the right link and resets the stream/lapping state, sample seek lands exactly, packet fetch sets the position from granule positions by the documented formula, reads advance the position by the frames returned, track-only decoding carries sequence numbers.',
 'note':'Trusted: abstract page table / packet source stand for real Ogg data (whole packets only, no continued packets), contract of ov_pcm_seek_page assumed in pcm-exact. Bit-identity of the audio itself is reduced to C11 (output depends only on the packet and its predecessor) and not executed. ov_raw_seek, ov_time_seek(_page) and multi-call histories beyond one step are outside.'}
