import sys,os
sys.path.insert(0,os.path.dirname(os.path.dirname(os.path.abspath(__file__))))
from jobs_lib import vf,blk,other
def jobs(tier):
    return vf(tier,'C08')+other('C02',tier,lambda j:j.name.startswith('K-synth'))[:1]+blk(tier,lambda j:j.name.startswith('blockin-step'))[:2]
CLAIM={'text':'Bounded model checking of ov_pcm_seek_page (bisection over an abstract page table: lands at or before the target on the last page strictly before it, in the right link) and ov_pcm_seek (exact landing, per-link block sizes, the decoder is always repositioned); the packets ov_pcm_seek skips are tracked by vorbis_synthesis_trackonly with the sequence number of the packet itself (K-synth) so that the accumulator step (blockin-step) keeps its sample count across the hand-over from skipped to decoded packets; _fetch_and_process_packet sets positions from granule positions in full-rate units (F-fetch).',
 'note':'(Thorough tier only: time-seek / time-seek-page, the time-to-sample conversion of ov_time_seek[_page] on a concrete 3-link table with the requested time any double; no verdict inside the quick budget.) Trusted: abstract page table (<=3 pages per link, file < 64 KiB: interpolation branch dead), 2 links, packets without granule positions in pcm-exact. Time seeks, argument rejection leaving the handle bit-identical, raw seek are not yet covered.'}
