import sys,os
sys.path.insert(0,os.path.dirname(os.path.dirname(os.path.abspath(__file__))))
from jobs_lib import vf,blk,other
def jobs(tier):
    return vf(tier,'C08')
CLAIM={'text':'Bounded model checking of ov_pcm_seek_page (bisection over an abstract page table: lands at or before the target on the last page strictly before it, in the right link) and ov_pcm_seek (exact landing, per-link block sizes).',
 'note':'Trusted: abstract page table (<=3 pages per link, file < 64 KiB: interpolation branch dead), 2 links, packets without granule positions in pcm-exact. Time seeks, argument rejection leaving the handle bit-identical, raw seek are not yet covered.'}
