import sys,os
sys.path.insert(0,os.path.dirname(os.path.dirname(os.path.abspath(__file__))))
from jobs_lib import vf,blk,other
def jobs(tier):
    return vf(tier,'C09')+other('C02',tier,lambda j:j.name.startswith('K-synth'))[:1]+blk(tier,lambda j:j.name.startswith('blockin-step'))[:1]
CLAIM={'text':"Bounded model checking of the link bookkeeping used while reading a chained file: at a link boundary the serial number selects the matching table entry, the decoder is rebuilt with that link's info, per-link offsets enter the position exactly once; streaming handles never touch the seekable-only tables.",
 'note':"Trusted: contract stubs for framing/decode. NOT covered yet: construction of the link tables at open (_bisect_forward_serialno/_open_seekable2) - the chain-table harness of DESIGN section 3 is not built; so 'reports k links with exact lengths' is not decided, only the consumption of a correct table."}
