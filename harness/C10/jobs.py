import sys,os
sys.path.insert(0,os.path.dirname(os.path.dirname(os.path.abspath(__file__))))
from jobs_lib import vf,blk,other
def jobs(tier):
    return vf(tier,'C10')+other('C17',tier,lambda j:j.name=='rd-pack-w1-s0-be0')
CLAIM={'text':'Bounded model checking of the only code that observes delivery granularity (_get_data/_get_next_page/_seek_helper): every read-size schedule (0..2048 bytes per call, any errno) is forwarded byte-exactly to the framing layer, offsets advance by exactly the bytes skipped/consumed; bytes the application read ahead (initial/ibytes of ov_open_callbacks/ov_test_callbacks) are handed to the sync layer once with their exact count and are NOT accounted as consumed, so every offset recorded at open is independent of how much was pre-read (F-open); the chain tables built at open take each serial number from the header fetch of its own link (bisect-step); requested read lengths only bound the frames returned (rd-pack); raw seek keeps the packets of a first-and-last page (raw-seek).',
 'note':'Trusted: libogg sync layer as contract stub with ghost byte accounting (its reassembly is not vorbis code). Equality of the three access paths end-to-end is derived (same packets reach the same decoder), not executed. <=4 events per call.'}
