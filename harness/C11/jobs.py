import importlib.util as _u, os as _o
def _blk():
    p=_o.path.join(_o.path.dirname(_o.path.dirname(_o.path.abspath(__file__))),'block','jobs_common.py'); sp=_u.spec_from_file_location('blk',p); m=_u.module_from_spec(sp); sp.loader.exec_module(m); return m
def jobs(tier):
    import sys,os
    sys.path.insert(0,os.path.dirname(os.path.dirname(os.path.abspath(__file__))))
    from vlib.runner import Job
    J=_blk().blockin_jobs(tier)
    from jobs_lib import other as _other
    J+=_other('C02',tier,lambda j:j.name.startswith('K-synth'),fn='_jobs0')[:1]   # a reused block must not carry an earlier packet into a track-only step
    cfgs=[('stereo-coupled',2,1,'0,0',1,0,1),('three-2sub',3,2,'0,0,1',1,0,1)] if tier=='quick' else [('stereo-coupled',2,1,'0,0',1,0,1),('three-2sub',3,2,'0,0,1',1,0,1),('stereo-plain',2,1,'0,0',0,0,1),('five-2sub',5,2,'0,0,0,0,1',1,2,3),('mono',1,1,'0',0,0,0)]
    for wc in (0,1):
      J.append(Job('K-floor0-inv2-W%d'%wc,'C11/k_floor0_inv2.c',defs=['-DWC=%d'%wc],cuts={'floor0.c':['floor0_map_lazy_init']},unwind=36,unwindset=[('verif_memset',None,40)],object_bits=10,checks=['leak'],witnesses=['unused floor on a block size never rendered before','curve rendered'],
          functions=['floor0_inverse2','floor0_look','floor0_free_look'],models=['floor0_map_lazy_init cut: builds the map for the current block size when missing (float bark arithmetic outside)','vorbis_lsp_to_curve cut: records arguments'],
          bounds='block sizes (32,64), current block flag %d, every subset of block sizes rendered before, used/unused floor'%wc,weight=1))
    for nm,ch,sub,mux,cp,m,a in cfgs:
        J.append(Job('K-map-'+nm,'C11/k_map.c',defs=['-DCH=%d'%ch,'-DSUBMAPS=%d'%sub,'-DMUXLIST=%s'%mux,'-DCOUPLED=%d'%cp,'-DCMAG=%d'%m,'-DCANG=%d'%a],unwind=132,object_bits=10,
            witnesses=['decoded']+(['coupled pair with one unused floor'] if cp else [])+(['two submaps'] if sub==2 else []),
            functions=['mapping0_inverse'],models=['floor/residue/MDCT back ends cut to argument-checking ghost stubs (M-dsp)'],
            bounds='layout %s: %d channels, %d submaps (%s), coupling %s; block size 64; work vectors start with arbitrary bits; any subset of unused floors'%(nm,ch,sub,mux,'(%d,%d)'%(m,a) if cp else 'none'),weight=2))
    return J
CLAIM={'text':'Floor 0 curve stage: an unused floor clears its whole half block regardless of which block sizes were rendered by earlier packets (K-floor0-inv2: no hidden dependence on older packets through the lazily built lookup). Inductive-step model checking of the only cross-packet state of the decoder (vorbis_synthesis_blockin): from EVERY prior decoder state (i.e. whatever earlier packets were lost, altered, duplicated or rejected) the samples exposed by a block occupy exactly the overlap span of this block with its predecessor; cells outside that span and outside the stored second half are untouched; copy regions equal the block verbatim; a sequence break resets the sample counter and granule tracking; a rejected call leaves the state bit-identical; and the mapping stage (mapping0_inverse) hands the residue decoder all-zero work vectors whatever the scratch memory held.',
 'note':'Trusted: floor/residue/MDCT back ends as ghost stubs; K-map decides the per-packet zeroing of the work vectors and the channel/submap plumbing of mapping0_inverse from arbitrary scratch contents (the mutable look structures of floor/residue are not covered); float VALUES of the windowed overlap are outside the claim (position/frame only) - so "bit-identical from the second packet on" is decided at the level of which accumulator cells a block may read and write, not by executing the MDCT. 1 channel (loop uniform), block sizes listed per job, positions < 2^40.',
 'design_ref':'DESIGN.md section 3 C11 (ni-blockin frame formulation, ni-fail)'}
