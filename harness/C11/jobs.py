import importlib.util as _u, os as _o
def _blk():
    p=_o.path.join(_o.path.dirname(_o.path.dirname(_o.path.abspath(__file__))),'block','jobs_common.py'); sp=_u.spec_from_file_location('blk',p); m=_u.module_from_spec(sp); sp.loader.exec_module(m); return m
def jobs(tier):
    return _blk().blockin_jobs(tier)
CLAIM={'text':'Inductive-step model checking of the only cross-packet state of the decoder (vorbis_synthesis_blockin): from EVERY prior decoder state (i.e. whatever earlier packets were lost, altered, duplicated or rejected) the samples exposed by a block occupy exactly the overlap span of this block with its predecessor; cells outside that span and outside the stored second half are untouched; copy regions equal the block verbatim; a sequence break resets the sample counter and granule tracking; a rejected call leaves the state bit-identical.',
 'note':'Trusted: vorbis_synthesis output abstracted to arbitrary floats (the per-packet scratch state of mapping0/floor/residue is not yet covered by a two-run harness); float VALUES of the windowed overlap are outside the claim (position/frame only) - so "bit-identical from the second packet on" is decided at the level of which accumulator cells a block may read and write, not by executing the MDCT. 1 channel (loop uniform), block sizes listed per job, positions < 2^40.',
 'design_ref':'DESIGN.md section 3 C11 (ni-blockin frame formulation, ni-fail)'}
