/* C11/C01 K-floor0-inv2 — floor 0 curve stage: what a packet's output depends on.
 * real code : floor0_inverse2, floor0_look, floor0_free_look (lib/floor0.c)
 * cut       : floor0_map_lazy_init -> builds the (arbitrary-valued, in-range) bark map for the current block size if it is not there yet
 *             and records n = blocksize/2, as the real one does (its float arithmetic: outside); vorbis_lsp_to_curve -> records its arguments
 * symbolic  : which block sizes had an ACTIVE floor in earlier packets (either lazy map already built or not: the hidden state), current
 *             block flag, whether this packet's floor is in use
 * assert    : an unused floor clears exactly the blocksize/2 cells of the channel vector, WHATEVER earlier packets did (no dependence on
 *             whether a curve of this block size was ever rendered before); a used floor renders over exactly blocksize/2 cells with the map
 *             of the CURRENT block size, the look's order, the packet's amplitude and the configured amplitude offset.
 */
#include "verif.h"
#include <stdlib.h>
#include <string.h>
#include <ogg/ogg.h>
#include "vorbis/codec.h"
#include "codec_internal.h"
#ifndef WC
#define WC 0
#endif
#define NS 16
#define NL 32
static int g_curve_calls=0, g_c_n, g_c_ln, g_c_m; static float g_c_amp, g_c_off; static int *g_c_map; static float *g_c_out, *g_c_lsp;
#if !VERIF_NATIVE
/* cell-wise model of memset for this unit (CBMC's built-in loses zero fills whose length comes from a heap field: spurious, rejected by the native replay) */
static void *verif_memset(void *d,int c,size_t n){ CHECK(c==0,"only zero fills in this unit"); size_t k=n/sizeof(float); float *df=d; for(size_t i=0;i<k;i++) df[i]=0.f; unsigned char *dd=d; for(size_t i=k*sizeof(float);i<n;i++) dd[i]=0; return d; }
#define memset verif_memset
#endif
#include "floor0.c"
#undef memset
int ov_ilog(ogg_uint32_t v){ int ret; for(ret=0;v;ret++)v>>=1; return ret; }
void *_vorbis_block_alloc(vorbis_block *vb,long bytes){ return malloc(64); }
long vorbis_book_decodev_set(codebook *book,float *a,oggpack_buffer *b,int n){ return -1; }
void vorbis_lsp_to_curve(float *curve,int *map,int n,int ln,float *lsp,int m,float amp,float ampoffset){ g_curve_calls++; g_c_out=curve; g_c_map=map; g_c_n=n; g_c_ln=ln; g_c_lsp=lsp; g_c_m=m; g_c_amp=amp; g_c_off=ampoffset; }
static void floor0_map_lazy_init(vorbis_block *vb,vorbis_info_floor *infoX,vorbis_look_floor0 *look){
  if(!look->linearmap[vb->W]){ codec_setup_info *ci=vb->vd->vi->codec_setup; int n=ci->blocksizes[vb->W]/2; look->linearmap[vb->W]=malloc((n+1)*sizeof(int)); look->n[vb->W]=n; } }
void harness(void){
  vorbis_info vi; codec_setup_info ci; vorbis_dsp_state vd; vorbis_block vb; memset(&vi,0,sizeof vi); memset(&ci,0,sizeof ci); memset(&vd,0,sizeof vd); memset(&vb,0,sizeof vb);
  vi.codec_setup=&ci; vd.vi=&vi; vb.vd=&vd; ci.blocksizes[0]=2*NS; ci.blocksizes[1]=2*NL;
  vorbis_info_floor0 info; memset(&info,0,sizeof info); info.order=3; info.rate=44100; info.barkmap=8; info.ampbits=6; info.ampdB=ND_irange(0,255); info.numbooks=1;
  vorbis_look_floor0 *look=(vorbis_look_floor0 *)floor0_look(&vd,(vorbis_info_floor *)&info);
  /* history: earlier packets may or may not have rendered a curve at either block size */
  for(int w=0;w<2;w++) if(ND_BOOL()){ vb.W=w; floor0_map_lazy_init(&vb,(vorbis_info_floor *)&info,look); }
  int had[2]={look->linearmap[0]!=0,look->linearmap[1]!=0};
  vb.W=WC; int n= WC? NL:NS;   /* block flag: configuration (a symbolic length in the clearing memset hits the CBMC symbolic-length memset imprecision) */
  static float out[NL+2]; for(int i=0;i<NL+2;i++) out[i]=7.f;
  static float lsp[4]={0.1f,0.2f,0.3f,5.f}; int used=ND_BOOL();
  float *memo=0; if(used) memo=&lsp[0];
  int r=floor0_inverse2(&vb,(vorbis_look_floor *)look,memo,out);
  if(!used){
    CHECK(r==0 && g_curve_calls==0,"unused floor: 0, no curve");
    for(int i=0;i<NL+2;i++){ if(i<n) CHECK(out[i]==0.f,"an unused floor clears the whole half block of the channel, whether or not a curve of this block size was ever rendered before"); else CHECK(out[i]==7.f,"nothing beyond the half block is touched"); }
    if(!had[vb.W]) WITNESS_AT("unused floor on a block size never rendered before");
  }else{
    CHECK(r==1 && g_curve_calls==1,"used floor: one curve");
    CHECK(g_c_out==out && g_c_n==n && g_c_map==look->linearmap[vb.W] && g_c_ln==info.barkmap && g_c_lsp==lsp && g_c_m==3,"curve over blocksize/2 cells with the CURRENT block size map and the look order");
    CHECK(g_c_amp==5.f && g_c_off==(float)info.ampdB,"amplitude from the packet, offset from the set-up");
    WITNESS_AT("curve rendered");
  }
  floor0_free_look((vorbis_look_floor *)look);
}
