/* C11 ni-scratch / C02 K-map — mapping0_inverse: per-packet scratch discipline and channel/submap plumbing.
 * real code : mapping0_inverse (lib/mapping0.c)
 * cut       : floor inverse1/inverse2, residue inverse, mdct_backward -> ghost stubs (M-dsp) that CHECK what they are handed
 * config    : channel count, submap layout, coupling pair (one job per layout: symbolic layouts make every vector pointer symbolic)
 * symbolic  : which channels' floors are unused this packet, block flag; the block's work vectors start with ARBITRARY contents (whatever earlier packets
 *             or the heap left there)
 * assert    : when the residue backend is entered, EVERY bundled work vector is all-zero over n/2 (bitwise) - so the decoded
 *             spectrum depends on this packet only, not on scratch history; the zero/nonzero flag passed for bundle slot k is that
 *             of the stream channel occupying the slot (after coupling "dirties" partners); bundle order = stream channel order
 *             within the submap; floor curve applied to every channel with its own memo; indices stay inside the channel count.
 */
#include "verif.h"
#include <stdlib.h>
#include <string.h>
#include <ogg/ogg.h>
#include "vorbis/codec.h"
#include "codec_internal.h"
#ifndef CH
#define CH 3
#endif
#define N 64
static unsigned g_flat[CH*N];   /* flat storage (cbmc 6.11 mis-resolves pointers to rows of 2-D arrays, DESIGN A.2) */
#define g_pcm(j,i) g_flat[(j)*N+(i)]
static float *g_pcmp[CH]; static int g_unused[CH]; static int g_memo[CH]; static int g_nonzero[CH];
static vorbis_info_mapping0 g_info; static int g_ch; static int g_res_calls=0, g_inv2_calls=0, g_mdct_calls=0;
static void *inv1(vorbis_block *vb,vorbis_look_floor *l){ long c=(int*)l-g_memo; static int dummy; (void)dummy; return 0; }
/* floor look objects are the per-submap tokens; inverse1 is called once per channel in channel order: track by counter */
static int g_inv1_n=0;
static void *inv1b(vorbis_block *vb,vorbis_look_floor *l){ int c=g_inv1_n++; CHECK(c<g_ch,"floor decode once per channel"); return g_unused[c]? (void*)0 : (void*)&g_memo[c]; }
static int inv2(vorbis_block *vb,vorbis_look_floor *l,void *memo,float *out){ int c=g_inv2_calls++; CHECK(c<g_ch && out==g_pcmp[c],"floor curve applied to each channel's own vector, in order");
  CHECK(memo==(g_unused[c]?(void*)0:(void*)&g_memo[c]),"each channel gets its own floor memo"); return 0; }
static int resinv(vorbis_block *vb,vorbis_look_residue *l,float **in,int *nonzero,int ch){
  int sub=g_res_calls++; CHECK(sub<g_info.submaps,"one residue decode per submap");
  int k=0;
  for(int j=0;j<CH;j++) if(j<g_ch && g_info.chmuxlist[j]==sub){
    CHECK(k<ch && in[k]==g_pcmp[j],"bundle slot k holds the k-th stream channel of this submap");
    CHECK((nonzero[k]!=0)==(g_nonzero[j]!=0),"zero/nonzero flag of the slot is that of ITS stream channel");
    for(int i=0;i<N/2;i++) CHECK(g_pcm(j,i)==0u,"work vector is all-zero when residue decode starts (no scratch history)");
    k++; }
  CHECK(k==ch,"bundle size = channels of the submap");
  return 0; }
void mdct_backward(mdct_lookup *init, float *in, float *out){ g_mdct_calls++; }
static const vorbis_func_floor ff={0,0,0,0,0,&inv1b,&inv2};
static const vorbis_func_residue rf={0,0,0,0,0,0,0,&resinv};
const vorbis_func_floor *const _floor_P[]={&ff,&ff};
const vorbis_func_residue *const _residue_P[]={&rf,&rf,&rf};
#include "mapping0.c"
int ov_ilog(ogg_uint32_t v){ int ret; for(ret=0;v;ret++)v>>=1; return ret; }
void harness(void){
  vorbis_info vi; codec_setup_info ci; vorbis_dsp_state vd; private_state b; vorbis_block vb;
  memset(&vi,0,sizeof vi); memset(&ci,0,sizeof ci); memset(&vd,0,sizeof vd); memset(&b,0,sizeof b); memset(&vb,0,sizeof vb);
  vi.codec_setup=&ci; vd.vi=&vi; vd.backend_state=&b; vb.vd=&vd; g_ch=vi.channels=CH;   /* configuration */
  ci.blocksizes[0]=N; ci.blocksizes[1]=N; vb.W=0;   /* block flag concrete: cbmc 6.11 loses precision on memset with a symbolic length (DESIGN A.2) */
  static vorbis_look_floor *flr[2]; static vorbis_look_residue *res[2]; static int tok[4]; flr[0]=&tok[0]; flr[1]=&tok[1]; res[0]=&tok[2]; res[1]=&tok[3]; b.flr=flr; b.residue=res;
  static mdct_lookup ml; static vorbis_look_transform *t0[1],*t1[1]; t0[0]=(vorbis_look_transform*)&ml; t1[0]=(vorbis_look_transform*)&ml; b.transform[0]=t0; b.transform[1]=t1;
  memset(&g_info,0,sizeof g_info); g_info.submaps=SUBMAPS; static const int MUX[]={MUXLIST};
  for(int j=0;j<CH;j++){ g_info.chmuxlist[j]= MUX[j]; g_unused[j]=ND_irange(0,1); g_nonzero[j]=!g_unused[j]; }
  for(int s=0;s<2;s++){ g_info.floorsubmap[s]=s; g_info.residuesubmap[s]=s; } ci.floor_type[0]=1; ci.floor_type[1]=0; ci.residue_type[0]=2; ci.residue_type[1]=1;
  g_info.coupling_steps=COUPLED;
  if(g_info.coupling_steps){ g_info.coupling_mag[0]=CMAG; g_info.coupling_ang[0]=CANG;
    if(g_nonzero[g_info.coupling_mag[0]]||g_nonzero[g_info.coupling_ang[0]]){ g_nonzero[g_info.coupling_mag[0]]=1; g_nonzero[g_info.coupling_ang[0]]=1; } }
  for(int j=0;j<CH;j++){ g_pcmp[j]=(float*)(g_flat+j*N); for(int i=0;i<N;i++) g_pcm(j,i)=ND_uint(); }    /* scratch history: arbitrary bits */
  vb.pcm=g_pcmp;
  int r=mapping0_inverse(&vb,(vorbis_info_mapping *)&g_info);
  CHECK(r==0 && g_res_calls==g_info.submaps && g_inv2_calls==g_ch && g_mdct_calls==g_ch && g_inv1_n==g_ch,"every channel decoded, every submap's residue decoded once");
  if(g_info.coupling_steps && g_unused[g_info.coupling_ang[0]] && !g_unused[g_info.coupling_mag[0]]) WITNESS_AT("coupled pair with one unused floor");
  if(g_info.submaps==2) WITNESS_AT("two submaps"); WITNESS_AT("decoded");
}
