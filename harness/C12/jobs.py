import sys,os
sys.path.insert(0,os.path.dirname(os.path.dirname(os.path.abspath(__file__))))
from jobs_lib import vf,blk,other
def jobs(tier):
    return vf(tier,'C12')
CLAIM={'text':'Bounded model checking with fault-injecting callbacks: failed opens never close the data source and leave the handle cleared; a failing seek leaves the file position of the library and the sync buffer untouched; backward page searches terminate under persisting end-of-data (recurrence/lasso check); I/O leaf functions return documented codes; after a failed seek (decode machine dumped, position -1, no link set up) every query function stays inside the tables (F-info: D23) and a later page seek sets the handle up again so that sample seeks work (page-bisect from the OPENED state: D24); header fetch error exits clear exactly what they initialised.',
 'note':'Trusted: contract stubs (vf_env.h). Post-failure equivalence of a later seek with a never-failed handle is argued per function from the state the failing functions leave (offset untouched, decode machine dumped) plus the page-seek harness started from that state; fault injection inside the bisection loop of ov_pcm_seek_page and inside ov_pcm_seek is not modelled (their seek_error exits are not explored).'}
