import sys,os
sys.path.insert(0,os.path.dirname(os.path.dirname(os.path.abspath(__file__))))
from jobs_lib import vf,blk,other
def jobs(tier):
    return vf(tier,'C12')
CLAIM={'text':"Bounded model checking with fault-injecting callbacks: failed opens never close the data source and leave the handle cleared; a failing seek leaves the library's file position and sync buffer untouched; backward page searches terminate under persisting end-of-data (recurrence/lasso check); I/O leaf functions return documented codes.",
 'note':'Trusted: contract stubs (vf_env.h). Post-failure equivalence of a later seek with a never-failed handle is argued from the state the failing functions leave (offset untouched, decode machine dumped), per function; seek_error paths of the individual seeks are covered only where the seek harnesses exist (page-bisect, pcm-exact do not inject faults yet).'}
