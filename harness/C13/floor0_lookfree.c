/* C13 L-floor0 — floor 0 look life cycle: floor0_look / floor0_free_look release both lazily built bark maps exactly once.
 * real code : floor0_look, floor0_free_look, floor0_free_info (lib/floor0.c)
 * symbolic  : which of the two maps (short-block, long-block) were built before the look is freed
 * assert    : no leak, no double free (CBMC allocator obligations), whatever subset of the maps exists.
 */
#include "verif.h"
#include <stdlib.h>
#include <string.h>
#include <ogg/ogg.h>
#include "floor0.c"
int ov_ilog(ogg_uint32_t v){ int ret; for(ret=0;v;ret++)v>>=1; return ret; }
void harness(void){
  vorbis_dsp_state vd; memset(&vd,0,sizeof vd);
  vorbis_info_floor0 *info=calloc(1,sizeof *info); info->order=ND_irange(1,255); info->barkmap=ND_irange(1,65535); info->numbooks=1;
  vorbis_look_floor0 *look=(vorbis_look_floor0 *)floor0_look(&vd,(vorbis_info_floor *)info);
  CHECK(look && look->linearmap && look->m==info->order && look->ln==info->barkmap,"look initialised");
  int a=ND_BOOL(), b=ND_BOOL();
  if(a){ look->linearmap[0]=malloc(16); look->n[0]=3; } if(b){ look->linearmap[1]=malloc(32); look->n[1]=7; }    /* what floor0_map_lazy_init allocates */
  floor0_free_look((vorbis_look_floor *)look);
  floor0_free_info((vorbis_info_floor *)info);
  if(a&&b) WITNESS_AT("both maps built"); if(!a&&b) WITNESS_AT("long map only");
}
