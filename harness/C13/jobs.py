import sys,os
sys.path.insert(0,os.path.dirname(os.path.dirname(os.path.abspath(__file__))))
from jobs_lib import vf,blk,other
from vlib.runner import Job
def jobs(tier):
    return vf(tier,'C13')+other('C02',tier,lambda j:j.name in('P-book','P-res','S-init-retry','P-floor0','P-map-s1-c1','K-floor0-d1-m3','P-setup'))+other('C16',tier,lambda j:j.name.startswith('cm-unpack') or j.name.startswith('cm-rt-n2'))+[Job('L-floor0','C13/floor0_lookfree.c',unwind=34,checks=['leak'],witnesses=['both maps built','long map only'],functions=['floor0_look','floor0_free_look','floor0_free_info'],models=[],bounds='every subset of the two bark maps')]
CLAIM={'text':'CBMC memory-leak and double-free obligations (--memory-leak-check + free preconditions, leaks replayed under LeakSanitizer) on constructor/destructor pairs and every error exit of: codebook, residue, floor-0 and mapping header parsers, comment unpack/clear, decoder init retry + info/dsp clear, floor-0 look, vorbisfile open/clear incl. the close-callback counter, header fetch, and one activation of the recursive link search (bisect-step: D22, the link whose successor cannot be opened).',
 'note':'Trusted: CBMC allocator model. Not covered: encoder set-up leak freedom with the real templates (D12, the 5.1 residue slot, is recorded from the design-phase hand reproduction only), vorbis_analysis_headerout, the block allocator chain (_vorbis_block_alloc/ripcord), floor-1 parser (harness does not finish).'}
