/* C14 br-step — one step of the hard min/max bitrate controller from an arbitrary reservoir state.
 * real code : vorbis_bitrate_addblock, vorbis_bitrate_flushpacket, vorbis_bitrate_managed (lib/bitrate.c)
 * symbolic  : reservoir fill R in [0,reservoir_bits], reservoir_bits, min/max bits per short block (either may be 0,
 *             min<=max when both set), block type W, rate, the 15 candidate packet sizes (bytes), granulepos/eofflag/sequence
 * config    : -DB0 -DB1 (log2 block sizes), -DBIAS (reservoir bias), -DQB (bit width of the rate quantities),
 *             -DSB (bit width of candidate sizes in bytes), -DPAD (max zero-padding bytes unrolled)
 * stub      : the bit-packer is a size counter (every sequence of candidate sizes the analysis stage could produce is covered)
 * assert    : (I1) -7 <= R' <= reservoir_bits+7   (packets are whole bytes: truncation rounds down, padding rounds up)
 *             (I2) max>0 => R'-R >= bits-max      (telescopes: sum(bits-max) <= R_end-R_start <= reservoir+7+7)
 *             (I3) min>0 => R'-R <= bits-min
 *             0<=choice<15; the packet flushed is blob[choice] with the block's granulepos/eofflag/sequence;
 *             (C05 managed-trunc) a packet is shortened only on the hard-max path and only as far as the limit requires.
 * avg tracker off (avg_bitsper==0); the initial candidate index AVG0 (= avgfloat) is configuration, one job per value.
 */
#include "verif.h"
#include <stdlib.h>
#include <string.h>
#include <ogg/ogg.h>
#include "vorbis/codec.h"
#include "codec_internal.h"
/* stub bitpacker: each blob is a size only */
long oggpack_bytes(oggpack_buffer *b){ return b->endbyte; }
void oggpack_writetrunc(oggpack_buffer *b,long bits){ b->endbyte=bits>>3; }
void oggpack_write(oggpack_buffer *b,unsigned long v,int bits){ b->endbyte+= (bits>>3); }
unsigned char *oggpack_get_buffer(oggpack_buffer *b){ return b->buffer; }
#include "bitrate.c"
#ifndef QB
#define QB 10
#endif
#ifndef SB
#define SB 9
#endif
#ifndef PAD
#define PAD 3
#endif
#ifndef AVG0
#define AVG0 7
#endif
#ifndef BIAS
#define BIAS .1
#endif
void harness(void){
  vorbis_info vi; codec_setup_info ci; vorbis_dsp_state vd; private_state ps; vorbis_block vb; vorbis_block_internal vbi;
  oggpack_buffer blobs[PACKETBLOBS]; long size0[PACKETBLOBS];
  memset(&vi,0,sizeof vi); memset(&ci,0,sizeof ci); memset(&vd,0,sizeof vd); memset(&ps,0,sizeof ps); memset(&vb,0,sizeof vb); memset(&vbi,0,sizeof vbi);
  vi.codec_setup=&ci; vd.vi=&vi; vd.backend_state=&ps; vb.vd=&vd; vb.internal=&vbi;
  static unsigned char bufs[PACKETBLOBS][1];
  for(int i=0;i<PACKETBLOBS;i++){ memset(&blobs[i],0,sizeof blobs[i]); vbi.packetblob[i]=&blobs[i]; blobs[i].buffer=bufs[i]; size0[i]=ND_range(0,1L<<SB); blobs[i].endbyte=size0[i]; }
  bitrate_manager_state *bm=&ps.bms; bitrate_manager_info *bi=&ci.bi;
  vi.rate=ND_range(1,200000);
  ci.blocksizes[0]=1L<<B0; ci.blocksizes[1]=1L<<B1;
  bm->managed=1; bm->short_per_long=ci.blocksizes[1]/ci.blocksizes[0];
  bm->avg_bitsper=0;
  bm->min_bitsper=ND_range(0,1L<<QB); bm->max_bitsper=ND_range(0,1L<<QB);
  ASSUME(bm->max_bitsper==0 || bm->min_bitsper<=bm->max_bitsper);
  bi->reservoir_bits=ND_range(0,1L<<(QB+3));
  bi->reservoir_bias=BIAS;
  bm->minmax_reservoir=ND_range(0,bi->reservoir_bits);
  bm->avgfloat=(double)AVG0;   /* configuration: initial candidate (a symbolic double here triples the solver time) */
  vb.W=ND_range(0,1);
  vb.granulepos=ND_long(); vb.eofflag=ND_irange(0,1); vb.sequence=ND_long();
  long r0=bm->minmax_reservoir;
  long maxt=(vb.W?bm->max_bitsper*bm->short_per_long:bm->max_bitsper);
  long mint=(vb.W?bm->min_bitsper*bm->short_per_long:bm->min_bitsper);
  for(int i=0;i<PACKETBLOBS;i++) ASSUME((mint-bm->minmax_reservoir+7)/8-size0[i]<=PAD);   /* bound: zero padding <= PAD bytes */
  int ret=vorbis_bitrate_addblock(&vb);
  CHECK(ret==0,"managed addblock accepts the block");
  CHECK(bm->choice>=0 && bm->choice<PACKETBLOBS,"choice in range");
  int ch=bm->choice; if(ch<0)ch=0; if(ch>=PACKETBLOBS)ch=PACKETBLOBS-1;
  long bits=blobs[ch].endbyte*8; long R=bm->minmax_reservoir;
  if(bm->min_bitsper>0 || bm->max_bitsper>0){
    CHECK(R>=-7,"I1: reservoir fill never below empty by more than the byte granularity");
    CHECK(R<=bi->reservoir_bits+7,"I1: reservoir fill never above its size by more than the byte granularity");
    if(maxt>0) CHECK(R-r0>=bits-maxt,"I2: every bit above the hard maximum is charged to the reservoir");
    if(mint>0) CHECK(R-r0<=bits-mint,"I3: every bit below the hard minimum is charged to the reservoir");
  }else CHECK(R==r0,"no limits configured: reservoir untouched");
  for(int i=0;i<PACKETBLOBS;i++) if(i!=ch) CHECK(blobs[i].endbyte==size0[i],"only the chosen candidate is altered");
  if(bits<size0[ch]*8){
    CHECK(maxt>0 && ch==0,"C05 managed-trunc: a packet is shortened only under a hard maximum, and only the smallest candidate");
    CHECK(R>=bi->reservoir_bits-7,"C05 managed-trunc: shortened only as far as the hard maximum requires (reservoir left full)");
    WITNESS_AT("truncated");
  }
  if(bits>size0[ch]*8){ CHECK(mint>0 && R<=7,"padding only under a hard minimum, and only as far as it requires (reservoir left empty)"); WITNESS_AT("padded"); }
  ogg_packet op; memset(&op,0,sizeof op);
  int fl=vorbis_bitrate_flushpacket(&vd,&op);
  CHECK(fl==1 && op.packet==bufs[ch] && op.bytes==blobs[ch].endbyte,"flushed packet is the chosen candidate");
  CHECK(op.granulepos==vb.granulepos && op.e_o_s==vb.eofflag && op.packetno==vb.sequence && op.b_o_s==0,"flushed packet carries the block's granulepos/eos/sequence");
  CHECK(vorbis_bitrate_flushpacket(&vd,&op)==0,"a block is flushed once");
  if(maxt>0 && mint>0 && bits==size0[ch]*8) WITNESS_AT("both limits, untouched packet");
}
