from vlib.runner import Job
def jobs(tier):
    J=[]
    cfgs=[(6,6,'.1',8,7,2,7),(8,11,'.5',8,7,2,0),(6,9,'0.',8,7,2,14),(7,10,'1.',8,7,2,7)] if tier=='quick' else \
         [(6,6,'.1',10,9,3,a) for a in range(15)]+[(8,11,'.5',10,9,3,0),(6,9,'0.',10,9,3,14),(7,10,'1.',10,9,3,7),(8,11,'.1',12,10,3,7),(6,13,'.9',10,9,6,3)]
    for b0,b1,bias,qb,sb,pad,avg in cfgs:
        J.append(Job('br-step-%d-%d-bias%s-q%d-a%d'%(1<<b0,1<<b1,bias.strip('.') or '0',qb,avg),'C14/br_step.c',
            defs=['-DB0=%d'%b0,'-DB1=%d'%b1,'-DBIAS=%s'%bias,'-DQB=%d'%qb,'-DSB=%d'%sb,'-DPAD=%d'%pad,'-DAVG0=%d'%avg],
            unwind=16,unwindset=[('vorbis_bitrate_addblock',r'minsize--',pad+1)],
            witnesses=['truncated','padded','both limits, untouched packet'],solver='kissat',
            functions=['vorbis_bitrate_addblock','vorbis_bitrate_flushpacket','vorbis_bitrate_managed'],
            models=['bit-packer replaced by a byte counter (sizes only)'],
            bounds='block sizes (%d,%d), bias %s, min/max bits per short block < 2^%d, reservoir < 2^%d, candidate sizes < 2^%d bytes, zero padding <= %d bytes, initial candidate %d, average tracker off; inductive step => any stream length'%(1<<b0,1<<b1,bias,qb,qb+3,sb,pad,avg),
            weight=5))
    import sys,os
    sys.path.insert(0,os.path.dirname(os.path.dirname(os.path.abspath(__file__))))
    from jobs_lib import load
    J.append(Job('ctl-ratemanage2','C15/ctl_rm2.c',unwind=4,object_bits=12,witnesses=['frozen','accepted','rejected'],functions=['vorbis_encode_ctl'],
        models=[],bounds='every field value (kbps fields within +-2^20, reservoir any long, bias/damping any double bit pattern)'))
    return J
CLAIM={'text':'Inductive-step model checking of the real rate controller vorbis_bitrate_addblock from every reservoir state and every 15 candidate packet sizes: reservoir fill stays within [-7, reservoir+7] bits and every bit above max / below min is charged to it, which telescopes to the property for every contiguous run of packets.',
 'note':'Trusted: bit-packer abstracted to a size counter; value ranges are bounded (bit widths listed per job); average-bitrate tracker off; 7-bit byte-granularity slack is part of the claim; mapping of bits-per-block to rate x duration uses max_bitsper = rint(max_rate*(bs0/2)/rate).'}
