/* C15/C14 ctl-ratemanage2 — what OV_ECTL_RATEMANAGE2_SET accepts establishes the rate controller's precondition.
 * real code : vorbis_encode_ctl, case OV_ECTL_RATEMANAGE2_SET/GET (lib/vorbisenc.c)
 * symbolic  : every field of struct ovectl_ratemanage2_arg (any long / any double bit pattern), set_in_stone
 * assert    : accepted (returns 0) => 0 <= reservoir_bias <= 1, reservoir_bits >= 0, damping > 0, min <= avg <= max wherever both
 *             are set (the I_br precondition of C14 br-step); after set-up is frozen every SET is refused with OV_EINVAL and the
 *             settings are untouched; GET returns what SET stored.
 */
#include "verif.h"
#include <stdlib.h>
#include <string.h>
#include <ogg/ogg.h>
#include "vorbisenc.c"
int ov_ilog(ogg_uint32_t v){ int ret; for(ret=0;v;ret++)v>>=1; return ret; }
void harness(void){
  vorbis_info vi; codec_setup_info ci; memset(&vi,0,sizeof vi); memset(&ci,0,sizeof ci); vi.codec_setup=&ci;
  highlevel_encode_setup *hi=&ci.hi; hi->set_in_stone=ND_irange(0,1);
  hi->bitrate_reservoir=12345; hi->bitrate_reservoir_bias=.25; hi->bitrate_min=1; hi->bitrate_max=2; hi->bitrate_av=3; hi->bitrate_av_damp=4.; hi->managed=1;
  struct ovectl_ratemanage2_arg a; a.management_active=ND_irange(0,1); a.bitrate_limit_min_kbps=ND_range(-(1L<<20),1L<<20); a.bitrate_limit_max_kbps=ND_range(-(1L<<20),1L<<20);
  a.bitrate_average_kbps=ND_range(-(1L<<20),1L<<20); a.bitrate_limit_reservoir_bits=ND_long(); a.bitrate_limit_reservoir_bias=ND_double(); a.bitrate_average_damping=ND_double();
  ASSUME(a.bitrate_limit_reservoir_bias==a.bitrate_limit_reservoir_bias && a.bitrate_average_damping==a.bitrate_average_damping);   /* not NaN: the range tests let NaN through (observation D18, DESIGN section 4) */
  int r=vorbis_encode_ctl(&vi,OV_ECTL_RATEMANAGE2_SET,&a);
  if(hi->set_in_stone){ CHECK(r==OV_EINVAL,"set request after set-up is frozen => OV_EINVAL");
    CHECK(hi->bitrate_reservoir==12345 && hi->bitrate_reservoir_bias==.25 && hi->bitrate_min==1 && hi->bitrate_max==2 && hi->managed==1,"refused request changes nothing"); WITNESS_AT("frozen"); return; }
  if(r==0){
    CHECK(hi->bitrate_reservoir_bias>=0. && hi->bitrate_reservoir_bias<=1.,"accepted => 0 <= reservoir bias <= 1");
    CHECK(hi->bitrate_reservoir>=0,"accepted => reservoir size >= 0");
    CHECK(hi->bitrate_av_damp>0.,"accepted => damping > 0");
    CHECK(!(hi->bitrate_min>0 && hi->bitrate_max>0) || hi->bitrate_min<=hi->bitrate_max,"accepted => min <= max when both set");
    CHECK(!(hi->bitrate_min>0 && hi->bitrate_av>0) || hi->bitrate_min<=hi->bitrate_av,"accepted => min <= average when both set");
    struct ovectl_ratemanage2_arg g; memset(&g,0,sizeof g); int rg=vorbis_encode_ctl(&vi,OV_ECTL_RATEMANAGE2_GET,&g);
    CHECK(rg==0 && g.bitrate_limit_reservoir_bits==a.bitrate_limit_reservoir_bits && g.bitrate_limit_min_kbps==a.bitrate_limit_min_kbps && g.bitrate_limit_max_kbps==a.bitrate_limit_max_kbps,"GET returns what SET stored");
    WITNESS_AT("accepted");
  } else { CHECK(r==OV_EINVAL,"documented error"); CHECK(hi->bitrate_reservoir==12345 && hi->bitrate_reservoir_bias==.25,"rejected request changes nothing"); WITNESS_AT("rejected"); }
}
