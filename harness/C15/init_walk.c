/* C15/C13 init-walk — the table-driven construction of vorbis_encode_setup_init on the real template tables, and its release.
 * real code : vorbis_encode_setup_setting, vorbis_encode_setup_init and every worker it calls (blocksize, floor, global psych, global stereo,
 *             psyset, tonemask, compand, peak, noisebias, ath, map_n_res -> residue_setup, book_dup_or_new, setting_to_approx_bitrate)
 *             (lib/vorbisenc.c, real lib/modes tables); vorbis_info_init, vorbis_info_clear (lib/info.c)
 * cut       : the registry free hooks (floor1/res0/mapping0 free_info, _vi_psy_free) -> release exactly the object passed (as the real ones do);
 *             vorbis_staticbook_destroy -> CHECKs that an encoder-side book is a static table (allocedp==0) and releases nothing
 * pre-state : what get_setup_template hands over (tmpl-* jobs): template TI, base_setting = IS + one of four fractions (configuration, see below);
 *             channels/rate admitted by the template; every field an encode-ctl request can change before set-up is frozen is arbitrary
 *             within the range that request enforces (managed flag: one job per value; bit-rate fields, coupling flag, low pass 2..99 kHz, impulse tune -15..0)
 * assert    : every table walk stays inside the template arrays and the info's parameter slots (standard pointer/bounds obligations on the
 *             real code); set-up returns 0; books/floors/residues/maps/modes/psys counts match the slots filled; after vorbis_info_clear
 *             nothing allocated by set-up is left (memory-leak obligation) and nothing is released twice.
 */
#include "verif.h"
#include <stdlib.h>
#include <string.h>
#include <ogg/ogg.h>
#include "vorbis/codec.h"
#include "codec_internal.h"
#include "registry.h"
static void fl_free(vorbis_info_floor *i){ CHECK(i!=0,"free_info gets an object"); free(i); }
static const vorbis_func_floor fl0={0,0,0,fl_free,0,0,0}, fl1={0,0,0,fl_free,0,0,0};
const vorbis_func_floor *const _floor_P[]={&fl0,&fl1};
static void rs_free(vorbis_info_residue *i){ CHECK(i!=0,"free_info gets an object"); free(i); }
static const vorbis_func_residue rs0={0,0,0,rs_free,0,0,0,0}, rs1={0,0,0,rs_free,0,0,0,0}, rs2={0,0,0,rs_free,0,0,0,0};
const vorbis_func_residue *const _residue_P[]={&rs0,&rs1,&rs2};
static void mp_free(vorbis_info_mapping *i){ CHECK(i!=0,"free_info gets an object"); free(i); }
static const vorbis_func_mapping mp0={0,0,mp_free,0,0};
const vorbis_func_mapping *const _mapping_P[]={&mp0};
void vorbis_staticbook_destroy(static_codebook *b){ CHECK(b!=0 && b->allocedp==0,"encoder-side books are static tables, never released"); }
void vorbis_book_clear(codebook *b){ CHECK(0,"no decode books exist after set-up"); }
void _vi_psy_free(vorbis_info_psy *i){ if(i) free(i); }
#include "info.c"
#include "vorbisenc.c"
int ov_ilog(ogg_uint32_t v){ int ret; for(ret=0;v;ret++)v>>=1; return ret; }
#ifndef TI
#define TI 1
#endif
#ifndef IS
#define IS 0
#endif
#ifndef MG
#define MG 0
#endif
#ifndef DSK
#define DSK 1
#endif
#ifdef COMPAND
/* compand-idx: the one table index of set-up that depends on the FRACTION of the setting: ds=x[is]*(1-ds)+x[is+1]*ds; is=(int)ds; in[is], in[is+1].
 * symbolic: the setting = any float in [0,mappings) or any clamp value j+1-.001 (contract of get_setup_template), both mapping tables */
void harness(void){
  const ve_setup_data_template *T=setup_list[TI];
  vorbis_info vi; vorbis_info_init(&vi); codec_setup_info *ci=vi.codec_setup;
  int block=ND_irange(0,3); ci->psy_param[block]=calloc(1,sizeof(vorbis_info_psy));
  double s; if(ND_BOOL()){ float f=ND_float(); ASSUME(f>=0.f && f<(float)T->mappings); s=f; WITNESS_AT("float setting"); } else { int j=ND_irange(0,T->mappings-1); s=j+1-.001; }
  vorbis_encode_compand_setup(&vi,s,block,T->psy_noise_compand,(ND_BOOL()||!T->psy_noise_compand_long_mapping)?T->psy_noise_compand_short_mapping:T->psy_noise_compand_long_mapping);   /* single-block templates have no long mapping; that set-up never asks for it is part of init-walk */
  free(ci->psy_param[block]); ci->psy_param[block]=0; vorbis_info_clear(&vi);
}
#else
void harness(void){
  const ve_setup_data_template *T=setup_list[TI];
  vorbis_info vi; vorbis_info_init(&vi);
  codec_setup_info *ci=vi.codec_setup; highlevel_encode_setup *hi=&ci->hi;
  long ch=ND_long(), sr=ND_long();
  ASSUME(ch>=1 && ch<=255); if(T->coupling_restriction!=-1) ASSUME(ch==T->coupling_restriction);
  ASSUME(sr>=T->samplerate_min_restriction && sr<=T->samplerate_max_restriction && sr>0);
  ASSUME(IS+1<=T->mappings);
  /* contract of get_setup_template (tmpl-*): a float value in [IS,IS+1) or the clamp IS+1-.001.  The fraction is CONFIGURATION (DSK: 0 = IS exactly,
     1 = IS+.5, 2 = largest float below IS+1, 3 = the clamp value): with a symbolic fraction every worker's `int is=s` is a symbolic table index and
     the table-driven loops no longer have concrete trip counts (measured: no verdict).  The one index that depends on the fraction itself
     (vorbis_encode_compand_setup) has its own job with a symbolic setting (compand-idx-*). */
  { float top=(float)(IS+1); unsigned u; memcpy(&u,&top,4); u--; memcpy(&top,&u,4);
    hi->base_setting= DSK==0?(double)IS : DSK==1?IS+.5 : DSK==2?(double)top : IS+1-.001; }
  hi->setup=T; hi->req=ND_double();
  /* encode-ctl requests before the set-up (ranges enforced by vorbis_encode_ctl; lowpass_altered keeps the request over the template value) */
  if(ND_BOOL()){ double lp=ND_double(); ASSUME(lp>=2. && lp<=99.); hi->lowpass_kHz=lp; hi->lowpass_altered=1; }
  { double it=ND_double(); ASSUME(it>=-15. && it<=0.); hi->impulse_noisetune=it; }
  vorbis_encode_setup_setting(&vi,ch,sr);
  hi->managed=MG; /* configuration: the managed flag selects between two complete book sets; symbolic, every later book number is symbolic */ hi->coupling_p=ND_BOOL();
  hi->bitrate_min=ND_long(); hi->bitrate_max=ND_long(); hi->bitrate_av=ND_long(); hi->bitrate_reservoir=ND_long();
  hi->bitrate_av_damp=ND_double(); hi->bitrate_reservoir_bias=ND_double();
  int r=vorbis_encode_setup_init(&vi);
  CHECK(r==0,"set-up from a selected template succeeds");
  CHECK(vi.channels==ch && vi.rate==sr,"the info reports the requested channels and rate");
  CHECK(ci->blocksizes[0]>=64 && ci->blocksizes[1]>=ci->blocksizes[0] && ci->blocksizes[1]<=8192,"block sizes within the format's range");
  CHECK(ci->books>=1 && ci->books<=256,"book count inside the 256 slots");
  CHECK(ci->floors>=1 && ci->floors<=64 && ci->residues>=1 && ci->residues<=64 && ci->maps>=1 && ci->maps<=64 && ci->modes>=1 && ci->modes<=64 && ci->psys>=1 && ci->psys<=4,"section counts inside their slots");
  for(int i=0;i<4;i++){
    if(i<ci->residues){ CHECK(ci->residue_param[i]!=0,"every counted residue slot is filled");
      vorbis_info_residue0 *rr=ci->residue_param[i];
      CHECK(rr->groupbook>=0 && rr->groupbook<ci->books,"residue group book is a book of this set-up");
      CHECK(rr->grouping>0 && rr->end>0 && rr->end>=rr->begin,"residue end/grouping usable"); }
    if(i<ci->floors) CHECK(ci->floor_param[i]!=0,"every counted floor slot is filled");
    if(i<ci->maps) CHECK(ci->map_param[i]!=0,"every counted mapping slot is filled");
    if(i<ci->modes) CHECK(ci->mode_param[i]!=0 && ci->mode_param[i]->mapping<ci->maps,"every counted mode slot is filled");
  }
  if(ci->residues==3) WITNESS_AT("three residues");
  if(ci->modes==1) WITNESS_AT("single block size");
  WITNESS_AT("set-up completed");
  vorbis_info_clear(&vi);
  CHECK(vi.codec_setup==0,"info cleared");
}
#endif
