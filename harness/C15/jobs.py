import sys,os
sys.path.insert(0,os.path.dirname(os.path.dirname(os.path.abspath(__file__))))
from vlib.runner import Job
from jobs_lib import other
def _mappings():
    # number of quality/bitrate intervals per template, read from the CURRENT source by compiling a two-line probe against lib/vorbisenc.c
    import subprocess,tempfile
    from vlib.runner import REPO
    with tempfile.TemporaryDirectory() as d:
        c=os.path.join(d,'m.c'); open(c,'w').write('#include <stdio.h>\n#include <stdlib.h>\n#include <string.h>\n#include <ogg/ogg.h>\n#include "vorbisenc.c"\nint ov_ilog(ogg_uint32_t v){return 0;}\nvoid vorbis_info_clear(vorbis_info *v){}\nint main(){for(int i=0;setup_list[i];i++)printf("%d ",setup_list[i]->mappings);return 0;}\n')
        subprocess.run(['gcc','-w','-I',REPO+'/lib','-I',REPO+'/include','-o',d+'/m',c,'-lm'],check=True,stdout=subprocess.DEVNULL,stderr=subprocess.DEVNULL)
        return [int(x) for x in subprocess.run([d+'/m'],capture_output=True,text=True).stdout.split()]
def init_walk_jobs(tier):
    J=[]; M=_mappings(); q=tier=='quick'
    for ti,m in enumerate(M):
        iss=sorted(set([0,m-1])) if q else list(range(m))
        if q and ti not in (0,1,11): continue   # quick: 5.1 (three residues), stereo, single-block 8 kHz; thorough: all 17
        for i_s,mg,dk in [(i,m,k) for i in iss for m in (0,1) for k in (0,1,2,3)]:
            if q and ((i_s==0)!=(mg==0) or dk!=(1 if i_s==0 else 2)): continue
            J.append(Job('init-walk-t%d-s%d-%s-f%d'%(ti,i_s,'managed' if mg else 'vbr',dk),'C15/init_walk.c',defs=['-DTI=%d'%ti,'-DIS=%d'%i_s,'-DMG=%d'%mg,'-DDSK=%d'%dk],unwind=260,object_bits=12,checks=['leak'],slice=True,
                witnesses=['set-up completed'],functions=['vorbis_encode_setup_setting','vorbis_encode_setup_init','vorbis_encode_map_n_res_setup','vorbis_encode_residue_setup','vorbis_encode_floor_setup','vorbis_encode_global_stereo','vorbis_encode_global_psych_setup','vorbis_encode_psyset_setup','vorbis_encode_tonemask_setup','vorbis_encode_compand_setup','vorbis_encode_peak_setup','vorbis_encode_noisebias_setup','book_dup_or_new','setting_to_approx_bitrate','vorbis_info_clear'],
                models=['real lib/modes/*.h tables','registry free hooks release exactly their argument','get_setup_template contract (tmpl-*)'],tags=['C13'],
                bounds='template %d of %d, setting interval %d of %d, fraction case %d of {0,.5,largest float below 1,clamp}, managed=%d; channels/rate anything the template admits; ctl-settable fields arbitrary in their enforced ranges'%(ti,len(M),i_s,m,dk,mg),weight=2))
    for ti,m in enumerate(M):
        if q and ti not in (1,11): continue
        J.append(Job('compand-idx-t%d'%ti,'C15/init_walk.c',defs=['-DTI=%d'%ti,'-DCOMPAND'],unwind=42,object_bits=12,solver='kissat',witnesses=['float setting'],functions=['vorbis_encode_compand_setup'],
            models=['real lib/modes/*.h tables','get_setup_template contract (tmpl-*)'],bounds='template %d, ANY setting the template selection can hand over (float in [0,%d) or a clamp value), any block 0..3, short or long mapping'%(ti,m)))
    return J
def jobs(tier):
    J=[]
    q=tier=='quick'
    tis=[0,1,2,5,11,12,13,16] if q else list(range(17))
    for ti in tis:
        for qb in (0,1):
            J.append(Job('tmpl-t%d-%s'%(ti,'rate' if qb else 'q'),'C15/tmpl.c',defs=['-DTI=%d'%ti,'-DQB=%d'%qb],unwind=20,object_bits=12,solver='kissat',
                witnesses=['this template selected'],functions=['get_setup_template'],models=['real lib/modes/*.h tables'],
                bounds='template %d of 17, %s mode; req any double; channels/rate anything the template admits'%(ti,'bitrate' if qb else 'quality'),weight=2))
    J.append(Job('setup-guard','C15/setup_guard.c',cuts={'vorbisenc.c':['get_setup_template','vorbis_encode_setup_setting','vorbis_encode_blocksize_setup']},unwind=4,object_bits=12,witnesses=['set-up proceeds','coupling control used','refused'],
        functions=['vorbis_encode_setup_init','vorbis_encode_setup_vbr','vorbis_encode_setup_managed','vorbis_encode_ctl'],models=['get_setup_template contract (tmpl-*)','set-up construction cut at its first worker'],bounds='histories of <=2 set-up/control calls with arbitrary arguments on a fresh info, then setup_init',weight=2))
    J.append(Job('oneshot','C15/oneshot.c',cuts={'vorbisenc.c':['vorbis_encode_setup_managed','vorbis_encode_setup_vbr','vorbis_encode_setup_init']},unwind=4,object_bits=12,witnesses=['second stage failed','first stage failed','success'],functions=['vorbis_encode_init','vorbis_encode_init_vbr'],
        models=['set-up stages cut to success/documented-error stubs'],bounds='every combination of stage outcomes'))
    J.append(Job('ctl-ratemanage2','C15/ctl_rm2.c',unwind=4,object_bits=12,witnesses=['frozen','accepted','rejected'],functions=['vorbis_encode_ctl'],tags=['C14'],
        models=[],bounds='every field value (kbps fields within +-2^20, reservoir any long, bias/damping any double bit pattern)'))
    J+=init_walk_jobs(tier)
    J+=other('C14',tier,lambda j:True)[:1]     # managed-mode rate controller (C15-m1 class: candidate index stays inside the 15 blobs)
    return J
CLAIM={'text':'Bounded model checking of the encoder set-up entry points on the real template tables: template selection yields an in-range table index for every double request and every admissible (channels, rate) (case split over all 17 templates x 2 modes in the thorough tier); the one-step initialisers clear the info structure on every failure; the rate-management control request accepts exactly settings satisfying the controller precondition and refuses changes after set-up is frozen; the managed-mode candidate index stays inside the 15 packet blobs; the whole table-driven construction of vorbis_encode_setup_init (every worker, book/floor/residue/mapping/psy slots) on the real tables stays inside the template arrays and the info slots for every setting interval of every template (thorough) with arbitrary channels/rate/ctl-settable fields, succeeds, and is released completely by vorbis_info_clear (init-walk); the fraction-dependent compander index stays inside its table for every setting (compand-idx).',
 'note':'Trusted: real lib/modes tables as compiled. init-walk runs the fraction of the setting as four concrete cases per interval (0, .5, largest float below 1, clamp) because a symbolic fraction makes every `int is=s` a symbolic index (no verdict); the interpolated VALUES are outside the claim. Not yet covered: psy-idx (libm-nondeterministic index safety of _vp_psy_init etc.), other ctl requests, headerout guards, encoding of audio (float analysis path).'}
