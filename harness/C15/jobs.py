import sys,os
sys.path.insert(0,os.path.dirname(os.path.dirname(os.path.abspath(__file__))))
from vlib.runner import Job
from jobs_lib import other
def jobs(tier):
    J=[]
    q=tier=='quick'
    tis=[0,1,2,5,11,12,13,16] if q else list(range(17))
    for ti in tis:
        for qb in (0,1):
            J.append(Job('tmpl-t%d-%s'%(ti,'rate' if qb else 'q'),'C15/tmpl.c',defs=['-DTI=%d'%ti,'-DQB=%d'%qb],unwind=20,object_bits=12,solver='kissat',
                witnesses=['this template selected'],functions=['get_setup_template'],models=['real lib/modes/*.h tables'],
                bounds='template %d of 17, %s mode; req any double; channels/rate anything the template admits'%(ti,'bitrate' if qb else 'quality'),weight=2))
    J.append(Job('setup-guard','C15/setup_guard.c',cuts={'vorbisenc.c':['get_setup_template','vorbis_encode_setup_setting','vorbis_encode_blocksize_setup']},unwind=4,object_bits=12,witnesses=['set-up proceeds','coupling control used','refused'],
        functions=['vorbis_encode_setup_init','vorbis_encode_setup_vbr','vorbis_encode_setup_managed','vorbis_encode_ctl'],models=['get_setup_template contract (tmpl-*)','set-up construction cut at its first worker'],bounds='histories of <=2 set-up/control calls with arbitrary arguments on a fresh info, then setup_init',weight=2))
    J.append(Job('oneshot','C15/oneshot.c',cuts={'vorbisenc.c':['vorbis_encode_setup_managed','vorbis_encode_setup_vbr','vorbis_encode_setup_init']},unwind=4,object_bits=12,witnesses=['second stage failed','first stage failed','success'],functions=['vorbis_encode_init','vorbis_encode_init_vbr'],
        models=['set-up stages cut to success/documented-error stubs'],bounds='every combination of stage outcomes'))
    J.append(Job('ctl-ratemanage2','C15/ctl_rm2.c',unwind=4,object_bits=12,witnesses=['frozen','accepted','rejected'],functions=['vorbis_encode_ctl'],tags=['C14'],
        models=[],bounds='every field value (kbps fields within +-2^20, reservoir any long, bias/damping any double bit pattern)'))
    J+=other('C14',tier,lambda j:True)[:1]     # managed-mode rate controller (C15-m1 class: candidate index stays inside the 15 blobs)
    return J
CLAIM={'text':'Bounded model checking of the encoder set-up entry points on the real template tables: template selection yields an in-range table index for every double request and every admissible (channels, rate) (case split over all 17 templates x 2 modes in the thorough tier); the one-step initialisers clear the info structure on every failure; the rate-management control request accepts exactly settings satisfying the controller precondition and refuses changes after set-up is frozen; the managed-mode candidate index stays inside the 15 packet blobs.',
 'note':'Trusted: real lib/modes tables as compiled. Not yet covered: the table walks of vorbis_encode_setup_init (x[is], books[...] double indirection) with symbolic base_setting, psy-idx (libm-nondeterministic index safety of _vp_psy_init etc.), other ctl requests, headerout guards, encoding of audio (float analysis path).'}
