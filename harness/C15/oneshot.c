/* C15/C13 oneshot — the one-step initialisers leave the info structure cleared on every failure.
 * real code : vorbis_encode_init, vorbis_encode_init_vbr (lib/vorbisenc.c)
 * cut       : vorbis_encode_setup_managed, vorbis_encode_setup_vbr, vorbis_encode_setup_init -> contract stubs (success or a
 *             documented error; a stage may have partially filled the info before failing); vorbis_info_clear -> ghost
 * assert    : return value is the failing stage's code; on failure the LAST thing done to vi is vorbis_info_clear
 *             (nothing written after it), on success it is never cleared; stages run in order, the second only after the first succeeded.
 */
#include "verif.h"
#include <stdlib.h>
#include <string.h>
#include <ogg/ogg.h>
static int g_dirty=0, g_clears=0, g_stage=0;
#include "vorbisenc.c"
int ov_ilog(ogg_uint32_t v){ int ret; for(ret=0;v;ret++)v>>=1; return ret; }
void vorbis_info_clear(vorbis_info *vi){ g_clears++; g_dirty=0; memset(vi,0,sizeof *vi); }
static int stage(vorbis_info *vi,int n){ CHECK(g_stage==n-1,"set-up stages run in order"); g_stage=n; g_dirty=1; vi->channels=7; int r=ND_int(); if(r){ ASSUME(r==OV_EFAULT||r==OV_EINVAL||r==OV_EIMPL); } return r; }
int vorbis_encode_setup_managed(vorbis_info *vi,long ch,long rate,long mx,long nom,long mn){ return stage(vi,1); }
int vorbis_encode_setup_vbr(vorbis_info *vi,long ch,long rate,float q){ return stage(vi,1); }
int vorbis_encode_setup_init(vorbis_info *vi){ return stage(vi,2); }
void harness(void){
  vorbis_info vi; memset(&vi,0,sizeof vi);
  int r= ND_BOOL()? vorbis_encode_init(&vi,ND_long(),ND_long(),ND_long(),ND_long(),ND_long()) : vorbis_encode_init_vbr(&vi,ND_long(),ND_long(),ND_float());
  if(r){ CHECK(g_dirty==0 && g_clears>=1 && vi.channels==0,"one-step initialiser failed => info structure left cleared"); CHECK(r==OV_EFAULT||r==OV_EINVAL||r==OV_EIMPL,"documented error code");
    if(g_stage==2) WITNESS_AT("second stage failed"); else WITNESS_AT("first stage failed"); }
  else { CHECK(g_clears==0 && g_stage==2,"success: both stages ran, nothing cleared"); WITNESS_AT("success"); }
}
