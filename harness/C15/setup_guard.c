/* C15 setup-guard — whatever sequence of set-up calls leads to vorbis_encode_setup_init, the table-driven construction behind its argument
 * checks starts only with a usable configuration.
 * real code : vorbis_encode_setup_init (up to its first worker), vorbis_encode_setup_vbr, vorbis_encode_setup_managed, vorbis_encode_ctl
 *             (OV_ECTL_COUPLING_SET, OV_ECTL_IBLOCK_SET, OV_ECTL_LOWPASS_SET) (lib/vorbisenc.c)
 * cut       : get_setup_template -> contract (NULL, or some template with an arbitrary base setting: its own harness is tmpl-*);
 *             vorbis_encode_setup_setting -> records channels/rate into the info as the real one does;
 *             vorbis_encode_blocksize_setup (the FIRST worker of setup_init) -> the observation point: CHECKs the configuration and ends the path
 * symbolic  : a history of up to 2 calls out of {setup_vbr, setup_managed, ctl COUPLING_SET/IBLOCK_SET/LOWPASS_SET} with arbitrary arguments
 *             (channels, rates, qualities, bit rates incl. <=0 and huge), on a fresh info, followed by setup_init
 * assert    : when setup_init gets past its checks: 1 <= channels <= 255, rate > 0, a template is selected; otherwise it returns OV_EINVAL
 *             (or the earlier call's error is what the application saw); no call of the history crashes on a fresh info.
 */
#include "verif.h"
#include <stdlib.h>
#include <string.h>
#include <ogg/ogg.h>
static int g_reached=0;
#include "vorbisenc.c"
int ov_ilog(ogg_uint32_t v){ int ret; for(ret=0;v;ret++)v>>=1; return ret; }
static const ve_setup_data_template g_tmpl;
static const void *get_setup_template(long ch,long srate,double req,int q_or_bitrate,double *base_setting){ if(ND_BOOL()) return 0; *base_setting=0.5; return &g_tmpl; }
static void vorbis_encode_setup_setting(vorbis_info *vi,long channels,long rate){ vi->version=0; vi->channels=channels; vi->rate=rate; }
static void vorbis_encode_blocksize_setup(vorbis_info *vi,double s,const int *shortb,const int *longb){
  codec_setup_info *ci=vi->codec_setup; g_reached=1;
  CHECK(vi->channels>=1 && vi->channels<=255,"table-driven set-up starts only with 1..255 channels");
  CHECK(vi->rate>0,"table-driven set-up starts only with a positive sample rate");
  CHECK(ci->hi.setup!=0,"table-driven set-up starts only with a template selected");
  WITNESS_AT("set-up proceeds");
  ASSUME(0);   /* the construction itself: tmpl-* harnesses and the encoder (outside this job) */
}
static void one_call(vorbis_info *vi){
  int k=ND_irange(0,4);
  if(k==0) (void)vorbis_encode_setup_vbr(vi,ND_long(),ND_long(),ND_float());
  else if(k==1) (void)vorbis_encode_setup_managed(vi,ND_long(),ND_long(),ND_long(),ND_long(),ND_long());
  else if(k==2){ int a=ND_int(); (void)vorbis_encode_ctl(vi,OV_ECTL_COUPLING_SET,&a); WITNESS_AT("coupling control used"); }
  else if(k==3){ double a=ND_double(); (void)vorbis_encode_ctl(vi,OV_ECTL_IBLOCK_SET,&a); }
  else { double a=ND_double(); (void)vorbis_encode_ctl(vi,OV_ECTL_LOWPASS_SET,&a); }
}
void harness(void){
  vorbis_info vi; memset(&vi,0,sizeof vi); vi.codec_setup=calloc(1,sizeof(codec_setup_info));   /* = vorbis_info_init */
  int n=ND_irange(0,2); if(n>=1) one_call(&vi); if(n>=2) one_call(&vi);
  int r=vorbis_encode_setup_init(&vi);
  CHECK(r==OV_EINVAL,"a set-up that cannot proceed is refused with OV_EINVAL");   /* paths that proceed end at the observation point */
  WITNESS_AT("refused");
  free(vi.codec_setup);
}
