/* C15 tmpl — get_setup_template on the real template tables: the interpolated base setting indexes inside the tables.
 * real code : get_setup_template (lib/vorbisenc.c) with the real lib/modes tables
 * symbolic  : req = ANY double bit pattern (incl. NaN, inf, negatives); channels and rate any values admitted by template TI's
 *             own restrictions (one job per template x {quality,bitrate} mode: case split by assumption, exhaustive over the
 *             finite template list)
 * assert    : result NULL, or a template with 0 <= (int)base_setting and (int)base_setting+1 <= mappings, and
 *             base_setting >= 0 — the index facts every later table access (x[is], x[is+1]) relies on
 */
#include "verif.h"
#include <stdlib.h>
#include <string.h>
#include <ogg/ogg.h>
#include "vorbisenc.c"
int ov_ilog(ogg_uint32_t v){ int ret; for(ret=0;v;ret++)v>>=1; return ret; }
void harness(void){
  const ve_setup_data_template *T=setup_list[TI];
  long ch=ND_long(), sr=ND_long(); double req=ND_double(); double base=-777.;
  ASSUME(ch>=1 && ch<=255); if(T->coupling_restriction!=-1) ASSUME(ch==T->coupling_restriction);
  ASSUME(sr>=T->samplerate_min_restriction && sr<=T->samplerate_max_restriction);
  const ve_setup_data_template *t=get_setup_template(ch,sr,req,QB,&base);
  if(t){
    int is=(int)base;
    CHECK(base>-1. && base<=(double)t->mappings,"base_setting within [0,mappings]");
    CHECK(is>=0 && is+1<=t->mappings,"(int)base_setting and +1 index inside the template's mapping tables");
    if(t==T) WITNESS_AT("this template selected");
  } else WITNESS_AT("no template");
}
