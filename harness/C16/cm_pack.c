/* C16/C05 cm-pack — the comment header the encoder writes is exactly the Vorbis I layout (spec 5.2.1 / 4.2.3):
 *   0x03 "vorbis" | u32le vendor_length | vendor | u32le count | { u32le length | bytes }* | framing bit
 * real code : vorbis_commentheader_out -> _vorbis_pack_comment, _v_writestring (lib/info.c)
 * symbolic  : every byte of every comment (incl. 0x00); lengths are configuration (-DL0 -DL1 -DL2, -DNC)
 * assert    : packet length and every packet byte equal the reference layout built from the caller-supplied
 *             lengths (a strict specification-level reader at fixed offsets).
 */
#include "verif.h"
#include <stdlib.h>
#include <string.h>
#include <ogg/ogg.h>
#if !VERIF_NATIVE
#include "oggpack.c"
#endif
static void *verif_memcpy(void *d,const void *s,size_t n){ unsigned char *dd=d; const unsigned char *ss=s; for(size_t i=0;i<n;i++)dd[i]=ss[i]; return d; }
#if !VERIF_NATIVE
#define memcpy verif_memcpy
#endif
#include "info.c"
int ov_ilog(ogg_uint32_t v){ int ret; for(ret=0;v;ret++)v>>=1; return ret; }
#ifndef NC
#define NC 2
#endif
#ifndef L0
#define L0 1
#endif
#ifndef L1
#define L1 2
#endif
#ifndef L2
#define L2 0
#endif
#define ML 4
static unsigned char ex[256]; static int en;
static void put32(unsigned v){ ex[en++]=v&255; ex[en++]=(v>>8)&255; ex[en++]=(v>>16)&255; ex[en++]=(v>>24)&255; }
void harness(void){
  vorbis_comment vc; vorbis_comment_init(&vc);
  char *strs[4]; int lens[4]={L0,L1,L2,0}; char flat[3*(ML+1)]; char *store[3];
  for(int i=0;i<3;i++){ store[i]=flat+i*(ML+1); for(int j=0;j<=ML;j++)store[i][j]=(char)ND_uchar(); strs[i]=store[i]; }
  strs[3]=0; vc.user_comments=strs; vc.comment_lengths=lens; vc.comments=NC;
  ogg_packet op; memset(&op,0,sizeof op); int r=vorbis_commentheader_out(&vc,&op);
  CHECK(r==0,"comment header produced");
  CHECK(op.b_o_s==0 && op.e_o_s==0 && op.granulepos==0,"packet flags");
  const char *vend=ENCODE_VENDOR_STRING; int vl=(int)strlen(vend);
  en=0; ex[en++]=3; ex[en++]='v'; ex[en++]='o'; ex[en++]='r'; ex[en++]='b'; ex[en++]='i'; ex[en++]='s';
  put32(vl); for(int i=0;i<vl;i++) ex[en++]=(unsigned char)vend[i];
  put32(NC);
  for(int i=0;i<NC;i++){ put32(lens[i]); for(int j=0;j<lens[i];j++) ex[en++]=(unsigned char)store[i][j]; }
  ex[en++]=1;
  CHECK(op.bytes==en,"packet length is the specification layout's length");
  if(op.bytes==en) for(int i=0;i<en;i++) CHECK(op.packet[i]==ex[i],"packet byte equals the specification layout");
  WITNESS_AT("packed");
  free(op.packet);
}
