/* C16 cm-query — tag queries vs a reference matcher.
 * real code : vorbis_comment_add, vorbis_comment_add_tag, vorbis_comment_query, vorbis_comment_query_count,
 *             tagcompare, _v_toupper (lib/info.c)
 * symbolic  : NCQ comments of 0..MLQ arbitrary non-NUL bytes, tag of 0..TLQ arbitrary non-NUL bytes (no '='), count any int
 * assert    : query(count=n) returns the pointer just past '=' of the n-th comment (insertion order) that starts with
 *             tag (ASCII case-fold of a-z only; bytes >= 0x80 verbatim) followed by '='; NULL otherwise;
 *             query_count == number of matches == number of n for which query is non-NULL.
 */
#include "verif.h"
#include <stdlib.h>
#include <string.h>
#include <ogg/ogg.h>
#include "info.c"
int ov_ilog(ogg_uint32_t v){ int ret; for(ret=0;v;ret++)v>>=1; return ret; }
#ifndef NCQ
#define NCQ 2
#endif
#ifndef MLQ
#define MLQ 3
#endif
#ifndef TLQ
#define TLQ 2
#endif
static int ref_up(int c){ return (c>='a'&&c<='z')? c-32 : c; }
static int ref_match(const char *s,const char *tag,int tl){   /* s NUL-terminated */
  for(int k=0;k<tl;k++){ if(s[k]==0) return 0; if(ref_up((unsigned char)s[k])!=ref_up((unsigned char)tag[k])) return 0; }
  return s[tl]=='=';
}
void harness(void){
  vorbis_comment vc; vorbis_comment_init(&vc);
  /* flat storage: cbmc 6.11 mis-resolves a decayed pointer to row>=1 of a 2-D array indexed symbolically (DESIGN 1.11) */
  char cf[NCQ*(MLQ+1)]; char *c[NCQ]; int len[NCQ];
  for(int i=0;i<NCQ;i++){ c[i]=cf+i*(MLQ+1); len[i]=ND_irange(0,MLQ); for(int j=0;j<MLQ;j++){ c[i][j]=(char)ND_uchar(); if(j<len[i]) ASSUME(c[i][j]!=0); } c[i][len[i]]=0; }
  char tag[TLQ+1]; int tl=ND_irange(0,TLQ); for(int j=0;j<TLQ;j++){ tag[j]=(char)ND_uchar(); if(j<tl) ASSUME(tag[j]!=0); } tag[tl]=0;
  for(int i=0;i<NCQ;i++) vorbis_comment_add(&vc,c[i]);
  CHECK(vc.comments==NCQ,"add appends");
  for(int i=0;i<NCQ;i++){ CHECK(vc.comment_lengths[i]==len[i] && !strcmp(vc.user_comments[i],c[i]),"add copies the string"); }
  int m[NCQ]; int total=0; for(int i=0;i<NCQ;i++){ m[i]=ref_match(c[i],tag,tl); total+=m[i]; }
  int qc=vorbis_comment_query_count(&vc,tag);
  CHECK(qc==total,"query_count == number of matching comments");
  int count=ND_int();
  char *q=vorbis_comment_query(&vc,tag,count);
  /* reference: n-th match in insertion order */
  char *want=0; int seen=0;
  for(int i=0;i<NCQ;i++) if(m[i]){ if(seen==count){ want=vc.user_comments[i]+tl+1; break; } seen++; }
  CHECK(q==want,"query returns the n-th match in insertion order, just past '='");
  CHECK((q!=0)==(count>=0 && count<qc),"query succeeds exactly for 0<=n<query_count");
  if(q && count==1) WITNESS_AT("second match returned");
  if(total==0) WITNESS_AT("no match");
  if(q && tl>=1 && tag[0]!=c[0][0] && m[0]) WITNESS_AT("case-folded match");
  vorbis_comment_clear(&vc);
}
