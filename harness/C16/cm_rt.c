/* C16 cm-rt — comment header round trip.
 * real code : vorbis_commentheader_out -> _vorbis_pack_comment, vorbis_synthesis_headerin -> _vorbis_unpack_comment,
 *             _v_writestring/_v_readstring, vorbis_comment_clear (lib/info.c, unmodified)
 * symbolic  : every byte of every comment (incl. 0x00); whether an entry is a NULL pointer (NULLIDX)
 * config    : -DNC (count) -DL0 -DL1 -DL2 (lengths; configuration, one job per vector) -DNULLIDX
 * models    : M-bitpack (read+write, fixed capacity)
 * assert    : accepted; same count, lengths, bytes, order; NUL terminated; vendor string; clears cleanly.
 */
#include "verif.h"
#include <stdlib.h>
#include <string.h>
#include <ogg/ogg.h>
#if !VERIF_NATIVE
#include "oggpack.c"
#endif
/* byte-loop memcpy so that CBMC's constant propagation sees through vorbis_commentheader_out's packet copy
   (the built-in memcpy is an opaque array operation; without this every length field read back is symbolic) */
static void *verif_memcpy(void *d,const void *s,size_t n){ unsigned char *dd=d; const unsigned char *ss=s; for(size_t i=0;i<n;i++)dd[i]=ss[i]; return d; }
#if !VERIF_NATIVE
#define memcpy verif_memcpy
#endif
#include "info.c"
int ov_ilog(ogg_uint32_t v){ int ret; for(ret=0;v;ret++)v>>=1; return ret; }
#ifndef NC
#define NC 2
#endif
#ifndef L0
#define L0 1
#endif
#ifndef L1
#define L1 2
#endif
#ifndef L2
#define L2 0
#endif
#ifndef NULLIDX
#define NULLIDX (-1)
#endif
#define ML 4
void harness(void){
  vorbis_comment vc; vorbis_comment_init(&vc);
  char *strs[4]; int lens[4]={L0,L1,L2,0}; char flat[3*(ML+1)]; char *store[3];
  for(int i=0;i<3;i++){ store[i]=flat+i*(ML+1); for(int j=0;j<=ML;j++)store[i][j]=(char)ND_uchar(); strs[i]=store[i]; }
  strs[3]=0;
  if(NULLIDX>=0){ strs[NULLIDX]=0; }
  vc.user_comments=strs; vc.comment_lengths=lens; vc.comments=NC;     /* explicit lengths: embedded NULs allowed */
  ogg_packet op; memset(&op,0,sizeof op); int r=vorbis_commentheader_out(&vc,&op);
  CHECK(r==0,"comment header produced");
  vorbis_info vi; memset(&vi,0,sizeof vi); vi.rate=1; vorbis_comment out; vorbis_comment_init(&out);
  int h=vorbis_synthesis_headerin(&vi,&out,&op);
  CHECK(h==0,"decoder accepts the encoder's comment header");
  if(h==0){
    CHECK(out.comments==NC,"same comment count");
    for(int i=0;i<NC;i++){
      int want = (i==NULLIDX)?0:lens[i];
      CHECK(out.comment_lengths[i]==want,"same length");
      for(int j=0;j<ML;j++) if(j<want) CHECK(out.user_comments[i][j]==store[i][j],"same bytes in same order");
      CHECK(out.user_comments[i][want]==0,"NUL terminated");
    }
    CHECK(out.user_comments[NC]==0,"list terminated by NULL");
    CHECK(out.vendor && !strcmp(out.vendor,ENCODE_VENDOR_STRING),"vendor string of the library");
    WITNESS_AT("round trip accepted");
  }
  vorbis_comment_clear(&out);
  CHECK(out.user_comments==0 && out.comment_lengths==0 && out.vendor==0 && out.comments==0,"clear zeroes the struct");
  vorbis_comment_clear(&out);
  free(op.packet);
}
