/* C16/C02 cm-unpack — _vorbis_unpack_comment on an arbitrary packet.
 * real code : vorbis_synthesis_headerin (type 3 dispatch) -> _vorbis_unpack_comment, _v_readstring, vorbis_comment_clear
 * symbolic  : packet length 0..PKT; packet contents through M-bitsrc (every read returns any value of its width)
 * assert    : memory-safe; accept => V_comment (count>=0, arrays count+1 long, each string allocated length+1 and
 *             NUL at [length], vendor terminated), every allocation bounded by the packet length (heap budget fixed
 *             by the input); reject => struct cleared; clear is idempotent.
 */
#include "verif.h"
#include <stdlib.h>
#include <string.h>
#include <ogg/ogg.h>
#include "bitsrc.c"
static long alloc_max=0;   /* ghost: largest single allocation request */
static void *spy_calloc(size_t n,size_t s){ long t=(long)(n*s); if(t>alloc_max)alloc_max=t; return calloc(n,s); }
#include "os.h"
#undef _ogg_calloc
#define _ogg_calloc spy_calloc
#include "info.c"
int ov_ilog(ogg_uint32_t v){ int ret; for(ret=0;v;ret++)v>>=1; return ret; }
#ifndef PKT
#define PKT 24
#endif
void harness(void){
  static unsigned char buf[PKT];
  long n=ND_range(0,PKT);
  ogg_packet op; memset(&op,0,sizeof op); op.packet=buf; op.bytes=n; op.b_o_s=ND_BOOL();
  vorbis_info vi; memset(&vi,0,sizeof vi); vi.rate=1; vorbis_comment vc; vorbis_comment_init(&vc);
  int h=vorbis_synthesis_headerin(&vi,&vc,&op);
  {
    if(h==0){
      CHECK(vc.comments>=0 && vc.comments<=PKT/4,"count bounded by packet size");
      CHECK(vc.vendor!=0 && vc.user_comments!=0 && vc.comment_lengths!=0,"arrays present");
      for(int i=0;i<PKT/4;i++) if(i<vc.comments){
        CHECK(vc.comment_lengths[i]>=0 && vc.comment_lengths[i]<=PKT,"length bounded by packet size");
        CHECK(vc.user_comments[i]!=0 && vc.user_comments[i][vc.comment_lengths[i]]==0,"string terminated at its length");
      }
      CHECK(vc.user_comments[vc.comments]==0,"list NULL terminated");
      WITNESS_AT("accepted");
      if(vc.comments>=1 && vc.comment_lengths[0]>=1) WITNESS_AT("accepted with a non-empty comment");
    }else{
      CHECK(h==OV_EBADHEADER || h==OV_ENOTVORBIS || h==OV_EFAULT,"documented error");
      CHECK(vc.user_comments==0 && vc.comment_lengths==0 && vc.vendor==0 && vc.comments==0,"rejected => cleared");
      WITNESS_AT("rejected");
    }
    CHECK(alloc_max<=8*(PKT+1),"every allocation bounded by a constant times the packet length");
  }
  vorbis_comment_clear(&vc); vorbis_comment_clear(&vc);
}
