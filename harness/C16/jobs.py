from vlib.runner import Job
M=['M-bitpack (models/oggpack.c, validated against libogg.a by tools/diff_oggpack.c)']
def jobs(tier):
    J=[]
    vecs=[(0,(0,0,0),-1),(1,(0,0,0),-1),(1,(3,0,0),-1),(2,(1,2,0),-1),(2,(2,0,0),0),(3,(1,0,2),-1)]
    if tier!='quick': vecs+=[(3,(4,4,4),-1),(3,(2,3,1),1),(2,(0,4,0),-1),(3,(0,0,0),2)]
    for nc,ls,nu in vecs:
        J.append(Job('cm-rt-n%d-%d%d%d%s'%(nc,ls[0],ls[1],ls[2],'' if nu<0 else '-null%d'%nu),'C16/cm_rt.c',
            defs=['-DNC=%d'%nc,'-DL0=%d'%ls[0],'-DL1=%d'%ls[1],'-DL2=%d'%ls[2],'-DNULLIDX=%d'%nu,'-DOGGPACK_MODEL_CAP=256'],unwind=130,
            native_link=['-logg'],witnesses=['round trip accepted'],models=M,
            functions=['vorbis_commentheader_out','_vorbis_pack_comment','_v_writestring','vorbis_synthesis_headerin','_vorbis_unpack_comment','_v_readstring','vorbis_comment_clear'],
            bounds='%d comments with lengths %s (configuration), every byte symbolic incl. NUL; packet < 256 B'%(nc,ls)))
    pv=[(2,(1,2,0)),(3,(4,0,3))] if tier=='quick' else [(2,(1,2,0)),(3,(4,0,3)),(3,(4,4,4)),(1,(0,0,0)),(0,(0,0,0))]
    for nc,ls in pv:
        J.append(Job('cm-pack-n%d-%d%d%d'%(nc,ls[0],ls[1],ls[2]),'C16/cm_pack.c',defs=['-DNC=%d'%nc,'-DL0=%d'%ls[0],'-DL1=%d'%ls[1],'-DL2=%d'%ls[2],'-DOGGPACK_MODEL_CAP=256'],
            unwind=20,unwindset=[('_v_writestring',None,60),('strlen',None,60),('verif_memcpy',None,130),('harness',r'i<vl',60),('harness',r'i<en',130)],
            native_link=['-logg'],witnesses=['packed'],models=M,functions=['vorbis_commentheader_out','_vorbis_pack_comment','_v_writestring'],
            bounds='%d comments with lengths %s (configuration), every byte symbolic incl. NUL'%(nc,ls)))
    pk=[19,21] if tier=='quick' else [19,21,23,24]
    for p in pk:
        J.append(Job('cm-unpack-%d'%p,'C16/cm_unpack.c',defs=['-DPKT=%d'%p],unwind=8,unwindset=[('_v_readstring',None,p-7),('_vorbis_unpack_comment',None,max(p-15,0)//4+2),('harness',None,p//4+2),('vorbis_comment_clear',None,max(p-15,0)//4+2)],
            witnesses=['accepted','rejected']+(['accepted with a non-empty comment'] if p>=21 else []),models=['M-bitsrc (models/bitsrc.c: libogg read-side position accounting, arbitrary data)'],checks=['sovf'],
            functions=['vorbis_synthesis_headerin','_vorbis_unpack_comment','_v_readstring','vorbis_comment_clear'],
            bounds='arbitrary packet of 0..%d bytes'%p, weight=3, mem_gb=(12 if p<23 else 40), mem_est=(4 if p<23 else 18)))
    qs=[(2,3,2)] if tier=='quick' else [(2,3,2),(3,4,3),(3,3,1)]
    for n,ml,tl in qs:
        J.append(Job('cm-query-%d-%d-%d'%(n,ml,tl),'C16/cm_query.c',defs=['-DNCQ=%d'%n,'-DMLQ=%d'%ml,'-DTLQ=%d'%tl],unwind=max(ml,tl)+4,
            witnesses=['second match returned','no match','case-folded match'],
            functions=['vorbis_comment_add','vorbis_comment_query','vorbis_comment_query_count','tagcompare','_v_toupper'],
            bounds='%d comments of <=%d bytes, tag <=%d bytes, count any int'%(n,ml,tl), weight=3))
    return J
CLAIM={'text':'Bounded model checking of the real comment packer/unpacker and query functions: round trip over the real _vorbis_pack_comment/_vorbis_unpack_comment through a libogg bit-packer model for every byte content at the listed length vectors; unpack on every packet up to the listed size; queries against a reference matcher for every string/tag/count within the size bounds.',
 'note':'Trusted: bit-packer model (differentially validated against libogg.a on every setup), CBMC string built-ins. Bounds: <=3 comments, lengths <=4 bytes, packets <=40 bytes, tags <=3 bytes; thousands of entries / 100 kB strings are outside the unrolling (their size arithmetic is covered by the signed-overflow checks on full-width integers in cm-unpack).'}
