from vlib.runner import Job
def jobs(tier):
    J=[]
    ch,ns=(2,1) if tier=='quick' else (3,2)
    for w in (1,2):
        for sg in (0,1):
            for be in ((0,) if w==1 else (0,1)):
                name='rd-pack-w%d-s%d-be%d'%(w,sg,be)
                defs=['-DWORD=%d'%w,'-DSG=%d'%sg,'-DBE=%d'%be,'-DCH=%d'%ch,'-DNS=%d'%ns]
                common=dict(unwind=ch*ns*2+4,object_bits=12,cuts={'vorbisfile.c':['_fetch_and_process_packet']},functions=['ov_read','ov_read_filter','ov_info','host_is_big_endian','vorbis_ftoi'],
                    models=['M-sse: CVTSD2SI per Intel SDM (validated by tools/diff_sse.c)','M-dsp: pcmout exposes arbitrary floats'])
                J.append(Job(name,'C17/rd_pack.c',defs=defs,witnesses=['rejected','clipped high','clipped low','full frame set','second link with different channel count','link crossed inside the call'],
                    bounds='format (word=%d,signed=%d,bigendian=%d); <=%d channels x <=%d frames; every float with |x*2^(8w-1)|<2^31, not NaN (complement is finding D13)'%(w,sg,be,ch,ns),**common))
                if (w,sg,be) in ((2,1,0),(1,0,0)):
                    J.append(Job(name+'-D13','C17/rd_pack.c',defs=defs+['-DD13'],witness=False,known=['D13'],
                        bounds='as above with unrestricted floats (NaN, inf, |x| >= 65536)',**common))
    return J
CLAIM={'text':'Bounded model checking of the real ov_read packing loops against an exact rounding/clipping/interleaving oracle for every float bit pattern, one solver job per sample format; argument rejection with an untouched buffer; frame count and position accounting.',
 'note':'Trusted: CVTSD2SI model (Intel SDM; differential test in setup), dsp stubbed to expose arbitrary floats. Bounds: <=2 (quick) / 3 (thorough) channels x 1/2 frames per call - the loops are uniform per sample. Known finding D13: inputs with |x*scale| >= 2^31 or NaN are excluded from the main jobs and exhibited by the -D13 jobs.'}
