/* C17 rd-pack — integer PCM packing of ov_read.
 * real code : ov_read -> ov_read_filter packing loops, ov_info, host_is_big_endian (lib/vorbisfile.c), vorbis_ftoi (lib/os.h,
 *             the build's own SSE2 variant)
 * symbolic  : every float bit pattern of CH x NS samples, channels per link 1..CH, avail 1..NS, length, seekable,
 *             current link (2-link handle with independent channel counts), pcm_offset, half-rate flag
 * config    : -DWORD -DSG -DBE (one job per format), -DCH -DNS
 * cut/stub  : vorbis_synthesis_pcmout exposes the symbolic floats; vorbis_synthesis_read records n (M-dsp contract)
 * model     : M-sse: CVTSD2SI per Intel SDM (round to nearest even, 0x80000000 for NaN / out of range), under CBMC only;
 *             the native replay executes the real instruction.
 * assert    : buffer too small / word<=0 => OV_EINVAL and the buffer is untouched; else return = k*word*channels,
 *             k=min(avail,length/frame), synthesis_read(k), pcm_offset += k<<hs, *bitstream=current_link, and byte
 *             (j*ch+c)*word.. = clip(round_half_even(x*2^(8*word-1))) (+bias if unsigned) in the requested byte order.
 * D13       : with -DD13 the input range is unrestricted (finding: |x*scale| >= 2^31 and NaN convert to INT_MIN and clip
 *             to the negative end); without it the harness assumes |x*scale| < 2^31 and x==x and states so in the bound.
 */
#include "verif.h"
#include <stdlib.h>
#include <string.h>
#include <math.h>
#include <ogg/ogg.h>
#include "vorbis/codec.h"
#include "vorbis/vorbisfile.h"
#ifndef CH
#define CH 2
#endif
#ifndef NS
#define NS 1
#endif
static float chan[CH*NS]; static float *pcmv[CH]; static int avail; static int readn=-1; static int hsflag;
static int g_first_empty=0, g_newlink=0, g_newch=1; static OggVorbis_File *g_vfp;
int vorbis_synthesis_pcmout(vorbis_dsp_state *v,float ***pcm){ if(g_first_empty) return 0; if(pcm)*pcm=pcmv; return avail; }
int vorbis_synthesis_read(vorbis_dsp_state *v,int n){ readn=n; return 0; }
int vorbis_synthesis_halfrate_p(vorbis_info *vi){ return hsflag; }
#if !VERIF_NATIVE
int __builtin_ia32_cvtsd2si(__attribute__((vector_size(16))) double v){
  double f=v[0];
  if(f!=f || f>=2147483648.0 || f<-2147483648.5) return (int)0x80000000;
  double r=nearbyint(f);            /* CBMC: rounding mode = round to nearest even */
  if(r>=2147483648.0) return (int)0x80000000;
  return (int)r; }
#endif
#include "vorbisfile.c"
/* cut: _fetch_and_process_packet -> "one packet decoded, possibly after crossing into another link" (its own harness: F-fetch) */
static int _fetch_and_process_packet(OggVorbis_File *vf,ogg_packet *op_in,int readp,int spanp){
  g_first_empty=0;
  if(vf->seekable) vf->current_link=g_newlink; else vf->vi[0].channels=g_newch;     /* streaming handles reload slot 0 */
  return 1; }
void harness(void){
  OggVorbis_File vf; vorbis_info vi[2]; memset(&vf,0,sizeof vf); memset(vi,0,sizeof vi);
  vf.ready_state=INITSET; vf.seekable=ND_BOOL(); vf.links=2; vf.vi=vi; vf.current_link=ND_irange(0,1);
  vi[0].channels=ND_irange(1,CH); vi[1].channels=ND_irange(1,CH);
  g_first_empty=ND_BOOL(); g_newlink=ND_irange(0,1); g_newch=ND_irange(1,CH); g_vfp=&vf;
  /* if nothing is pending the call first decodes one more packet, which may cross into another link: the frame layout is that of the link current AFTERWARDS */
  int crossed=g_first_empty;
  if(crossed){ if(vf.seekable) {} else {} }
  int link= vf.seekable? (crossed? g_newlink : vf.current_link):0;      /* streaming handles keep the current link's info in slot 0 */
  int ch= (!vf.seekable && crossed)? g_newch : vi[link].channels;
  int link_after= vf.seekable? link : vf.current_link;
  hsflag=ND_BOOL();
  avail=ND_irange(1,NS);
  for(int c=0;c<CH;c++){ pcmv[c]=chan+c*NS; for(int j=0;j<NS;j++){ float x=ND_float(); chan[c*NS+j]=x;
#ifndef D13
    { double s=(double)x*(WORD==1?128.0:32768.0); ASSUME(x==x && s<2147483647.5 && s>-2147483648.5); }
#endif
  } }
  int word=ND_int(); ASSUME(word==WORD || word<=0);
  int length=ND_irange(-1,CH*NS*2+1);
  char buf[CH*NS*2+2], shadow[CH*NS*2+2]; for(int i=0;i<CH*NS*2+2;i++){ buf[i]=(char)ND_uchar(); shadow[i]=buf[i]; }
  ogg_int64_t p0=ND_range(-1,1L<<40); vf.pcm_offset=p0; int bs=-7;
  long r=ov_read(&vf,buf,length,BE,word,SG,&bs);
  int frame=word*ch;
  if(word<=0 || length<frame){
    CHECK(r==OV_EINVAL,"buffer smaller than one frame, or non-positive word size, is rejected with OV_EINVAL");
    for(int i=0;i<CH*NS*2+2;i++) CHECK(buf[i]==shadow[i],"rejected call does not write the buffer");
    CHECK(vf.pcm_offset==p0 && readn==-1,"rejected call does not move the position");
    WITNESS_AT("rejected");
  }else{
    long want=avail; if(want>length/frame)want=length/frame;
    CHECK(r==want*frame,"returns a whole number of frames not exceeding the buffer");
    CHECK(readn==want,"consumes exactly the frames returned");
    CHECK(vf.pcm_offset==p0+(want<<hsflag),"position advances by the frames returned (x2 at half rate)");
    CHECK(bs==link_after && vf.current_link==link_after,"bitstream index reported is the link the samples belong to");
    for(int i=0;i<CH*NS*2+2;i++) if(i>=r) CHECK(buf[i]==shadow[i],"nothing written beyond the returned length");
    for(int j=0;j<NS;j++) if(j<want) for(int c=0;c<CH;c++) if(c<ch){
      float x=chan[c*NS+j]; double s=(double)x*(WORD==1?128.0:32768.0); long lo=(WORD==1?-128:-32768), hi=(WORD==1?127:32767);
      long q;
      if(s!=s) q=0; else if(s>=hi+0.5) q=hi; else if(s<=lo-0.5) q=lo; else q=(long)nearbyint(s);
      if(q>hi)q=hi; if(q<lo)q=lo;
      if(!SG) q+= (WORD==1?128:32768);
      long got;
      if(WORD==1) got= SG? (signed char)buf[j*ch+c] : (unsigned char)buf[j*ch+c];
      else { unsigned char b0=buf[(j*ch+c)*2], b1=buf[(j*ch+c)*2+1]; unsigned v= BE? (b0<<8|b1):(b1<<8|b0); got= SG? (short)v : (long)v; }
#ifdef D13
      CHECK(got==q,"D13: sample scaled, rounded to nearest, clipped to the NEAREST end of the range (unrestricted input)");
#else
      CHECK(got==q,"sample scaled, rounded to nearest (ties to even), clipped, offset, in channel order and byte order");
#endif
      if(s>hi+1.0 && c==ch-1 && j==want-1) WITNESS_AT("clipped high");
      if(s<lo-1.0) WITNESS_AT("clipped low");
    }
    if(ch==CH && want==NS) WITNESS_AT("full frame set");
    if(vf.seekable && vf.current_link==1 && vi[0].channels!=vi[1].channels) WITNESS_AT("second link with different channel count");
    if(crossed && vf.seekable && link!=ND_irange(0,1)) WITNESS_AT("link crossed inside the call");
  }
}
