/* C18(b) init-zero — buffers whose initial contents reach the output are initialised, whatever the heap contained.
 * real code : vorbis_analysis_init / vorbis_synthesis_init -> _vds_shared_init (lib/block.c), vorbis_block_init
 * env       : CBMC's malloc returns objects with arbitrary contents (= arbitrary prior heap contents); calloc zeroes.
 * cut       : DSP/codebook constructors (M-dsp contract stubs)
 * symbolic  : encoder or decoder side, channels 1..CH, block sizes (configuration), one arbitrary channel c and cell k
 * assert    : right after init, every cell of the PCM accumulator/analysis buffer is 0.0 (the encoder's lead-in for inputs of
 *             <= 32 samples and the decoder's first overlap read them before anything is written), the bookkeeping fields are
 *             at their documented initial values; vorbis_block_init zeroes the block.
 */
#include "verif.h"
#include <stdlib.h>
#include <string.h>
#include <ogg/ogg.h>
#if !VERIF_NATIVE
#include "oggpack.c"
#endif
#include "block.c"
int ov_ilog(ogg_uint32_t v){ int ret; for(ret=0;v;ret++)v>>=1; return ret; }
int vorbis_book_init_decode(codebook *c,const static_codebook *s){ memset(c,0,sizeof *c); return 0; }
int vorbis_book_init_encode(codebook *c,const static_codebook *s){ memset(c,0,sizeof *c); return 0; }
void vorbis_staticbook_destroy(static_codebook *b){ if(b->allocedp){ free(b); } }
void vorbis_book_clear(codebook *b){ memset(b,0,sizeof *b); }
void mdct_init(mdct_lookup *l,int n){ l->n=n; l->trig=0; l->bitrev=0; }
void mdct_clear(mdct_lookup *l){}
void drft_init(drft_lookup *l,int n){ l->n=n; l->trigcache=0; l->splitcache=0; }
void drft_clear(drft_lookup *l){}
void vorbis_bitrate_clear(bitrate_manager_state *bm){}
void vorbis_bitrate_init(vorbis_info *vi,bitrate_manager_state *bs){ memset(bs,0,sizeof *bs); }
void _vp_global_free(vorbis_look_psy_global *g){ free(g); }
vorbis_look_psy_global *_vp_global_look(vorbis_info *vi){ return calloc(1,sizeof(vorbis_look_psy_global)); }
void _vp_psy_init(vorbis_look_psy *p,vorbis_info_psy *vi,vorbis_info_psy_global *gi,int n,long rate){ memset(p,0,sizeof *p); }
void _vp_psy_clear(vorbis_look_psy *p){}
void _ve_envelope_init(envelope_lookup *e,vorbis_info *vi){ memset(e,0,sizeof *e); }
void _ve_envelope_clear(envelope_lookup *e){}
static void *lookstub(vorbis_dsp_state *vd,void *i){ return malloc(4); }
static void freelook(void *p){ free(p); }
static const vorbis_func_floor ff={0,0,&lookstub,0,&freelook,0,0};
static const vorbis_func_residue rf={0,0,&lookstub,0,&freelook,0,0,0};
const vorbis_func_floor *const _floor_P[]={&ff,&ff};
const vorbis_func_residue *const _residue_P[]={&rf,&rf,&rf};
#ifndef CH
#define CH 2
#endif
void harness(void){
  vorbis_info vi; codec_setup_info ci; memset(&vi,0,sizeof vi); memset(&ci,0,sizeof ci); vi.codec_setup=&ci; vi.channels=ND_irange(1,CH); vi.rate=44100;
  ci.blocksizes[0]=1L<<E0; ci.blocksizes[1]=1L<<E1; ci.modes=1; ci.maps=1; ci.floors=1; ci.residues=1; ci.books=1; ci.psys=0;
  int dummy; ci.floor_param[0]=&dummy; ci.residue_param[0]=&dummy; ci.floor_type[0]=1; ci.residue_type[0]=1;
  static_codebook *s=calloc(1,sizeof *s); s->allocedp=1; s->dim=1; s->entries=2; ci.book_param[0]=s;
  vorbis_dsp_state v; int enc=ND_BOOL();
  int r= enc? vorbis_analysis_init(&v,&vi) : vorbis_synthesis_init(&v,&vi);
  CHECK(r==0,"init succeeds");
  int c=ND_irange(0,CH-1); ASSUME(c<vi.channels); int k=ND_irange(0,(1<<E1)*8); ASSUME(k<v.pcm_storage);
  float x=v.pcm[c][k];
  CHECK(x==0.0f,"PCM buffer starts as digital silence regardless of prior heap contents");
  CHECK(v.pcm_storage==(enc?8192:(1L<<E1)) || v.pcm_storage>=(1L<<E1),"buffer size");
  if(enc){ CHECK(v.centerW==ci.blocksizes[1]/2 && v.pcm_current==v.centerW && v.eofflag==0 && v.preextrapolate==0 && v.granulepos==0,"encoder bookkeeping initial values (I_enc base case)"); WITNESS_AT("encoder"); }
  else { CHECK(v.centerW==ci.blocksizes[1]/2 && v.pcm_returned==-1 && v.granulepos==-1 && v.sequence==-1 && v.eofflag==0,"decoder bookkeeping initial values (V_dsp base case)");
         CHECK(((private_state*)v.backend_state)->sample_count==-1,"sample counter starts unknown"); WITNESS_AT("decoder"); }
  vorbis_block vb; vorbis_block_init(&v,&vb);
  CHECK(vb.vd==&v && vb.localalloc==0 && vb.localstore==0 && vb.pcm==0 && vb.reap==0,"block starts empty");
  vorbis_block_clear(&vb); vorbis_dsp_clear(&v);
}
