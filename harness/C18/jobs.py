import sys,os
sys.path.insert(0,os.path.dirname(os.path.dirname(os.path.abspath(__file__))))
from vlib.runner import Job
def jobs(tier):
    J=[]
    for e0,e1 in ([(6,7)] if tier=='quick' else [(6,6),(6,7),(8,11)]):
        J.append(Job('init-zero-%d-%d'%(1<<e0,1<<e1),'C18/init_zero.c',defs=['-DE0=%d'%e0,'-DE1=%d'%e1,'-DCH=2'],unwind=17,unwindset=[('ov_ilog',None,34)],object_bits=10,native_link=['-logg'],
            witnesses=['encoder','decoder'],functions=['vorbis_analysis_init','vorbis_synthesis_init','_vds_shared_init','vorbis_block_init','vorbis_dsp_clear'],
            models=['CBMC malloc = arbitrary contents (prior heap junk); DSP constructors stubbed'],bounds='block sizes (%d,%d), <=2 channels, one arbitrary cell'%(1<<e0,1<<e1)))
    from jobs_lib import other
    J+=other('C01',tier,lambda j:j.name.startswith('K-bookvec-v2'))
    return J
from jobs_lib import load
def extra_checks(tier,repo): return load('C18/static_scan.py').extra_checks(tier,repo)
CLAIM={'text':'(a) Solver-backed scan of the whole library (all 22 translation units linked into one goto binary): no reachable instruction of any library function assigns a static-lifetime object, so instances with disjoint objects share no mutable location and every interleaving is equivalent to a sequential run (derived, not explored). (b) Bounded model checking with CBMC\'s arbitrary-content malloc: the buffers whose initial contents reach the output (PCM accumulator / analysis buffer, block) are initialised whatever the heap contained; vorbis_book_decodev_set defines every cell of the (uninitialised, block-local) floor-0 vector, also for a book without used entries (K-bookvec-v2).',
 'note':'Trusted: CBMC goto-program and symbol table as the representation of the library; writes through pointers are not attributed to statics (no library static has its address stored in a heap object - not separately proved); libc/FPU state (errno, rounding mode) outside. (b) covers the init path only; the two-run formulation over parsers/packers (DESIGN section 3 C18) is not built. Concurrency itself is not explored.'}
