"""C18(a) — no library function writes a static-lifetime object (shared mutable state between instances).
Regenerated from /repo on every run:
  1. every lib/*.c of the three libraries is compiled with goto-cc and linked into one goto binary;
  2. the symbol table gives the static-lifetime objects defined in /repo/lib (file-scope and function-local statics);
  3. every ASSIGN instruction of every library function whose left-hand side names such an object is a candidate write;
  4. for each candidate the SOLVER decides reachability of that instruction inside its function
     (cbmc --function F --cover location, loops unwound twice and then left (--partial-loops: over-approximate reachability), arbitrary arguments and arbitrary pointees):
     reachable => a library function can write shared state => violation; unreachable (dead code) => not a write; if the solver does not answer within 150 s the syntactic write is reported (conservative).
No candidate at all = the library has no instruction that writes a static object by name (writes through pointers cannot reach
statics unless a static's address is taken and stored, which step 3 also reports as a candidate when assigned by name)."""
import json, os, re, subprocess, tempfile, shutil, time
UNITS = ['analysis','bitrate','block','codebook','envelope','floor0','floor1','info','lookup','lpc','lsp','mapping0','mdct','psy',
         'registry','res0','sharedbook','smallft','synthesis','vorbisenc','vorbisfile','window']
def run(cmd, timeout=600):
    return subprocess.run(cmd, capture_output=True, text=True, timeout=timeout)
def extra_checks(tier, repo):
    t0 = time.time()
    d = tempfile.mkdtemp(prefix='c18scan_', dir='/var/tmp')
    res = {'name': 'static-write-scan', 'verdict': 'pass', 'queries': 0, 'detail': '', 'failures': [], 'sample': None}
    try:
        gbs = []
        for u in UNITS:
            o = os.path.join(d, u + '.gb')
            r = run(['goto-cc', '-I' + repo + '/include', '-I' + repo + '/lib', '-DXIPH_VORBIS_VERIF', '-c', repo + '/lib/' + u + '.c', '-o', o])
            if r.returncode: res['verdict'] = 'error'; res['detail'] = 'goto-cc failed on %s: %s' % (u, r.stderr[-300:]); return res
            gbs.append(o)
        allgb = os.path.join(d, 'all.gb')
        r = run(['goto-cc'] + gbs + ['-o', allgb])
        if r.returncode: res['verdict'] = 'error'; res['detail'] = 'link failed: ' + r.stderr[-300:]; return res
        st = json.loads(run(['cbmc', '--show-symbol-table', '--json-ui', allgb]).stdout)
        statics = set()
        for m in st:
            if 'symbolTable' in m:
                for name, s in m['symbolTable'].items():
                    if s.get('isStaticLifetime') and s.get('isLvalue') and not s.get('isType') and (repo + '/lib') in json.dumps(s.get('location', {})):
                        statics.add(name)
        gf = json.loads(run(['goto-instrument', '--show-goto-functions', '--json-ui', allgb]).stdout)
        cands = []   # (function, file, line, lhs, static)
        nfun = 0; nassign = 0
        for m in gf:
            if 'functions' in m:
                for f in m['functions']:
                    if f.get('isInternal') or f['name'].startswith('__CPROVER'): continue
                    nfun += 1
                    for ins in f.get('instructions', []):
                        if ins.get('instructionId') != 'ASSIGN': continue
                        txt = ins.get('instruction', '')
                        mm = re.search(r'ASSIGN (.*?) := ', txt, re.S)
                        if not mm or '/lib/' not in txt: continue
                        nassign += 1
                        lhs = mm.group(1)
                        for tok in set(re.findall(r'[A-Za-z_][A-Za-z_0-9:$]*', lhs)):
                            if tok in statics:
                                fl = re.search(r'file (\S+) line (\d+)', txt)
                                cands.append((f['name'], fl.group(1) if fl else '?', fl.group(2) if fl else '?', lhs.strip()[:80], tok))
        res['detail'] = '%d library functions, %d assignments scanned, %d static-lifetime objects, %d candidate writes' % (nfun, nassign, len(statics), len(cands))
        res['queries'] = nassign
        res['sample'] = {'static_objects': len(statics), 'assignments_scanned': nassign, 'candidates': [list(c) for c in cands[:10]]}
        # solver reachability for each candidate
        for fn, fl, ln, lhs, sym in cands:
            reach = None
            try:
                r = run(['cbmc', allgb, '--function', fn, '--cover', 'location', '--unwind', '1', '--partial-loops', '--no-unwinding-assertions', '--json-ui', '--object-bits', '14'], timeout=150)
                for m in json.loads(r.stdout):
                    for g in m.get('goals', []):
                        sl = g.get('sourceLocation', {})
                        if sl.get('line') == ln and sl.get('file', '').endswith(os.path.basename(fl)) and sl.get('function') == fn:
                            if g.get('status') == 'satisfied': reach = True
                            elif reach is None: reach = False
            except Exception:
                reach = None
            res['queries'] += 1
            if reach is None or reach:
                res['verdict'] = 'fail'
                res['failures'].append({'property': 'static-write', 'description': 'library function %s writes static-lifetime object %s (%s:%s: %s)%s' % (fn, sym, fl, ln, lhs, '' if reach else ' [reachability undecided]'),
                                        'location': '%s:%s' % (fl, ln), 'function': fn, 'replay': {'outcome': 'solver-cover-satisfied' if reach else 'undecided'}})
        res['wall_s'] = round(time.time() - t0, 1)
        return res
    finally:
        shutil.rmtree(d, ignore_errors=True)
