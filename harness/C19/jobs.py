import sys,os
sys.path.insert(0,os.path.dirname(os.path.dirname(os.path.abspath(__file__))))
from jobs_lib import vf,blk,other,lap
def jobs(tier):
    return vf(tier,'C19')+lap(tier)
CLAIM={'text':"Bounded model checking of ov_crosslap's plumbing: errors of the priming steps propagate before the second handle is touched, self-lap is a no-op, and the splice is sized by each handle's own short block size, half-rate flag, window and channel count.",
 'note':'Trusted: _ov_splice/_ov_getlap/_ov_initset/_ov_initprime cut to argument-checking stubs. vorbis_synthesis_lapout is checked cell-by-cell (plain copies, any float). The splice arithmetic, _ov_getlap and the seek_lap variants are not yet covered.'}
