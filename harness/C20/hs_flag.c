/* C20 hs-flag — the packet-level half-rate switch.
 * real code : vorbis_synthesis_halfrate, vorbis_synthesis_halfrate_p (lib/synthesis.c)
 * symbolic  : the requested flag (ANY int: the API says 0 = off, non-zero = on), short block size 2^6..2^13, previous setting
 * assert    : refused (non-zero return) exactly when switching ON with 64-sample short blocks, and then the setting is off;
 *             otherwise the stored setting is exactly 0 or 1 (it is used as a SHIFT COUNT by block.c and by every position
 *             computation of vorbisfile: blocksizes>>(hs+1), samples<<hs) and equals (flag != 0); halfrate_p reports it.
 */
#include "verif.h"
#include <string.h>
#include <ogg/ogg.h>
#include "vorbis/codec.h"
#include "codec_internal.h"
#include "synthesis.c"
void harness(void){
  vorbis_info vi; codec_setup_info ci; memset(&vi,0,sizeof vi); memset(&ci,0,sizeof ci); vi.codec_setup=&ci;
  int e0=ND_irange(6,13), e1=ND_irange(6,13); ASSUME(e0<=e1); ci.blocksizes[0]=1L<<e0; ci.blocksizes[1]=1L<<e1;
  ci.halfrate_flag=ND_irange(0,1); ASSUME(!(ci.halfrate_flag && e0==6));
  int flag=ND_int();
  int r=vorbis_synthesis_halfrate(&vi,flag);
  if(flag && e0==6){ CHECK(r!=0,"switching on is refused for 64-sample short blocks"); CHECK(ci.halfrate_flag==0 && vorbis_synthesis_halfrate_p(&vi)==0,"a refused switch leaves full-rate decoding"); WITNESS_AT("refused"); }
  else{ CHECK(r==0,"accepted");
    CHECK(ci.halfrate_flag==0 || ci.halfrate_flag==1,"the stored setting is a shift count of 0 or 1 for every non-zero flag value");
    CHECK(ci.halfrate_flag==(flag!=0),"on for every non-zero flag, off for zero");
    CHECK(vorbis_synthesis_halfrate_p(&vi)==ci.halfrate_flag,"halfrate_p reports the setting");
    if(flag!=0 && flag!=1) WITNESS_AT("accepted with a flag other than 0/1"); }
}
