import importlib.util as _u, os as _o
def _blk():
    p=_o.path.join(_o.path.dirname(_o.path.dirname(_o.path.abspath(__file__))),'block','jobs_common.py'); sp=_u.spec_from_file_location('blk',p); m=_u.module_from_spec(sp); sp.loader.exec_module(m); return m
def jobs(tier):
    return [j for j in _blk().blockin_jobs(tier) if 'hs1' in j.name]
CLAIM=None
