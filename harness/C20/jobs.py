import sys,os
sys.path.insert(0,os.path.dirname(os.path.dirname(os.path.abspath(__file__))))
from jobs_lib import vf,blk,other
def jobs(tier):
    return vf(tier,'C20')+blk(tier,lambda j:'hs1' in j.name)
CLAIM={'text':'Inductive-step model checking of the half-rate arithmetic in the decoder accumulator (samples per block = (lW/4+W/4)>>1, full-rate granule bookkeeping, trims use extra>>hs) and bounded model checking of ov_halfrate (refusal rolls every link back to full rate, decode machine dumped, position re-established) and of sample seeks landing on even positions.',
 'note':'Trusted: contract stubs for the dsp in ov_halfrate; block sizes listed per job. Bound: page positions and link lengths even under half rate (odd ones make later positions odd: observation D17). Bit-identity of audio after toggling is not executed.'}
