import sys,os
sys.path.insert(0,os.path.dirname(os.path.dirname(os.path.abspath(__file__))))
from jobs_lib import vf,blk,other
def jobs(tier):
    from vlib.runner import Job
    hsf=[Job('hs-flag','C20/hs_flag.c',unwind=3,witnesses=['refused','accepted with a flag other than 0/1'],functions=['vorbis_synthesis_halfrate','vorbis_synthesis_halfrate_p'],bounds='any int flag, block sizes 64..8192',models=['_vorbis_block_ripcord/_vorbis_block_alloc, registry: not reached'])]
    return hsf+vf(tier,'C20')+blk(tier,lambda j:'hs1' in j.name)
CLAIM={'text':'Inductive-step model checking of the half-rate arithmetic in the decoder accumulator (samples per block = (lW/4+W/4)>>1, full-rate granule bookkeeping, trims use extra>>hs) and bounded model checking of vorbis_synthesis_halfrate (every non-zero flag is stored as the shift count 1), of ov_halfrate (refusal rolls every link back to full rate; on acceptance the decode machine is dumped and rebuilt, by a sample seek to the same position, for the setting in force on return) and of sample seeks landing on even positions.',
 'note':'Trusted: contract stubs for the dsp in ov_halfrate; block sizes listed per job. Bound: page positions and link lengths even under half rate (odd ones make later positions odd: observation D17). Bit-identity of audio after toggling is not executed.'}
