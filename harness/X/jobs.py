from vlib.runner import Job
BS=['M-bitsrc']
def jobs(tier):
    J=[]; q=tier=='quick'
    J.append(Job('P-floor0','C02/p_floor0.c',unwind=18,unwindset=[('ov_ilog',None,34),('harness',r'i<256',257)],checks=['leak'],witnesses=['accepted','accepted with several books','rejected'],models=BS,
        functions=['floor0_unpack','floor0_free_info'],bounds='any packet <= 40 bytes (the header is at most 186 bits); all 16 book slots',weight=1))
    return J
CLAIM={'text':'x','note':'x'}
_j0=jobs
def jobs(tier):
    J=[]
    for dimc,m in [(1,3),(2,4)]:
        J.append(Job('K-floor0-d%d-m%d'%(dimc,m),'C02/k_floor0.c',defs=['-DMMAX=%d'%m,'-DMFIX=%d'%m,'-DNBK=3','-DDIMC=%d'%dimc],unwind=18,unwindset=[('ov_ilog',None,34)],checks=['leak'],
            witnesses=['coefficients decoded','unused / end of packet','three or more vectors'],models=BS,functions=['floor0_inverse1','floor0_look','floor0_free_look'],bounds='',weight=3))
    for ab in (16,31,32):
        J.append(Job('K-floor0-amp%d'%ab,'C02/k_floor0.c',defs=['-DMMAX=1','-DMFIX=1','-DNBK=1','-DDIMC=1','-DAMPB=%d'%ab],unwind=18,unwindset=[('ov_ilog',None,34)],checks=['leak'],
            witnesses=['coefficients decoded','unused / end of packet']+(['32-bit amplitude with the top bit set'] if ab==32 else []),models=BS,functions=['floor0_inverse1'],bounds='',weight=3))
    return J
