/* K-blockin / dec-step / hs-blockin / ni-frame — one vorbis_synthesis_blockin from an arbitrary decoder state (inductive step).
 * serves    : C02 (memory safety + representation invariant V_dsp preserved), C04/C01 (sample-count and granule oracle),
 *             C20 (half-rate arithmetic), C11 (which cells the exposed audio depends on: overlap-add / copy oracle on every
 *             cell, out-of-sequence resets)
 * real code : vorbis_synthesis_blockin, vorbis_synthesis_pcmout, vorbis_synthesis_read (lib/block.c), real window tables
 * symbolic  : every bookkeeping field of the dsp state under V_dsp, the block's W/lW/nW/granulepos/sequence/eofflag, trackonly
 *             or not, all float data of the block and of the accumulator, one arbitrary observed cell k
 * config    : -DE0 -DE1 (log2 block sizes) -DHS (half-rate flag); 1 channel (per-channel loop is uniform)
 * bound     : granule positions and sequence in [-1, 2^40); sample_count < 2^31-2^14 (beyond: observation D14, `long extra` truncated to int)
 */
#include "verif.h"
#include <stdlib.h>
#include <string.h>
#include <ogg/ogg.h>
#include "window.c"
#include "block.c"
int ov_ilog(ogg_uint32_t v){ int ret; for(ret=0;v;ret++)v>>=1; return ret; }
#define BS0 (1<<E0)
#define BS1 (1<<E1)
#define GMAX (1L<<40)
static float accum[BS1]; static float blk[BS1]; static float old[BS1];
void harness(void){
  vorbis_info vi; codec_setup_info ci; vorbis_dsp_state v; private_state b; vorbis_block vb;
  memset(&vi,0,sizeof vi); memset(&ci,0,sizeof ci); memset(&v,0,sizeof v); memset(&b,0,sizeof b); memset(&vb,0,sizeof vb);
  vi.codec_setup=&ci; v.vi=&vi; v.backend_state=&b; vb.vd=&v; vi.channels=1;
  ci.blocksizes[0]=BS0; ci.blocksizes[1]=BS1; int hs=HS; ci.halfrate_flag=hs;
  b.window[0]=E0-6; b.window[1]=E1-6;                 /* = ov_ilog(bs)-7 (established by _vds_shared_init) */
  int n0=BS0>>(hs+1), n1=BS1>>(hs+1);
  float *pcmv[1]={accum}; float *retv[1]; v.pcm=pcmv; v.pcmret=retv; v.pcm_storage=BS1;
  /* V_dsp */
  v.centerW=ND_range(0,n1); ASSUME(v.centerW==0||v.centerW==n1);
  v.W=ND_range(0,1); v.lW=ND_range(0,1);
  v.pcm_returned=ND_irange(-1,BS1>>HS); v.pcm_current=ND_irange(0,BS1>>HS); ASSUME(v.pcm_returned<=v.pcm_current);
  v.granulepos=ND_range(-1,GMAX); v.sequence=ND_range(-1,GMAX); b.sample_count=ND_range(-1,(1L<<31)-(1L<<14));   /* bound: < 2^31 samples since the last restart / sequence break (beyond: observation D14, `long extra` truncated to int; memory-safe) */
  vb.W=ND_range(0,1); vb.lW=ND_range(0,1); vb.nW=ND_range(0,1);
  vb.granulepos=ND_range(-1,GMAX); vb.sequence=ND_range(-1,GMAX); vb.eofflag=ND_irange(0,1);
#ifdef DATA
  ASSUME(v.W==W0C && vb.W==W1C && (v.centerW!=0)==CWC && v.pcm_returned!=-1);   /* configuration of the data jobs: one overlap branch each */
  for(int i=0;i<BS1;i++){ accum[i]=ND_float(); old[i]=accum[i]; blk[i]=ND_float(); }
#endif
  float *bp[1]={blk};
#ifdef DATA
  int track=0;
#else
  int track=ND_BOOL();
#endif
  if(track){ vb.pcm=0; vb.pcmend=0; } else { vb.pcm=bp; vb.pcmend=ci.blocksizes[vb.W]; }
  /* snapshot */
  long W0=v.W, cW0=v.centerW; int ret0=v.pcm_returned, cur0=v.pcm_current; ogg_int64_t g0=v.granulepos, sq0=v.sequence, sc0=b.sample_count;
  int consumed = !(v.pcm_current>v.pcm_returned && v.pcm_returned!=-1);
  int r=vorbis_synthesis_blockin(&v,&vb);
  if(!consumed){
    CHECK(r==OV_EINVAL,"unconsumed output => OV_EINVAL");
    CHECK(v.W==W0 && v.centerW==cW0 && v.pcm_returned==ret0 && v.pcm_current==cur0 && v.granulepos==g0 && v.sequence==sq0 && b.sample_count==sc0,"rejected blockin leaves the decoder state untouched");
    WITNESS_AT("rejected");
    return;
  }
  CHECK(r==0,"accepted");
  long full=ci.blocksizes[W0]/4+ci.blocksizes[vb.W]/4;     /* spec 4.3.8: previous W/4 + current W/4 */
  int inseq = (sq0!=-1 && sq0+1==vb.sequence);
  /* ---- V_dsp preserved (C02) ---- */
  CHECK(v.lW==W0 && v.W==vb.W,"lW/W advance");
  CHECK(v.centerW==0||v.centerW==n1,"V_dsp: centerW");
  CHECK(v.pcm_returned>=0 || (track && ret0==-1),"V_dsp: pcm_returned >= 0 after a block with audio");
  CHECK(v.pcm_returned<=v.pcm_current && v.pcm_current<=(v.pcm_storage>>hs),"V_dsp: returned <= current <= storage>>hs");
  CHECK(v.sequence==vb.sequence,"sequence tracks the block");
  /* ---- sample counter (C04/C11) ---- */
  { ogg_int64_t sc_in = inseq? sc0 : -1;
    CHECK(b.sample_count==(sc_in==-1?0:sc_in+full),"sample counter: restarts at 0 when the sequence is broken, else advances by lW/4+W/4"); }
  /* ---- exposed sample count and granule position (C04 dec-step, C01 ola-count, C20 hs-blockin) ---- */
  if(!track){
    CHECK(v.centerW==(cW0?0:n1),"double buffer flips");
    int exposed=v.pcm_current-v.pcm_returned;
    long nominal = (ret0==-1)? 0 : (full>>hs);
    ogg_int64_t gin = inseq? g0 : -1;
    ogg_int64_t sc1=b.sample_count;
    if(gin!=-1){
      ogg_int64_t g1=gin+full;
      if(vb.granulepos!=-1 && g1>vb.granulepos && vb.eofflag){
        long extra=g1-vb.granulepos; if(extra>((long)nominal<<hs)) extra=(long)nominal<<hs;
        CHECK(exposed==nominal-(extra>>hs),"end of stream: the last block is trimmed to the stream's granule position (full-rate extra >> hs)");
        WITNESS_AT("eos trim with known position");
      } else { CHECK(exposed==nominal,"a block exposes (lW/4+W/4)>>hs samples; the first block after a restart exposes none"); WITNESS_AT("ordinary block"); }
      CHECK(v.granulepos==(vb.granulepos!=-1?vb.granulepos:g1),"granule position advances by lW/4+W/4 or follows the packet's");
    }else{
      if(vb.granulepos==-1){ CHECK(exposed==nominal && v.granulepos==-1,"no position known and none given: nominal output"); }
      else{
        CHECK(v.granulepos==vb.granulepos,"position adopted from the packet");
        if(sc1>vb.granulepos){
          long extra=sc1-vb.granulepos;
          if(vb.eofflag){ if(extra>((long)nominal<<hs)) extra=(long)nominal<<hs;
            CHECK(exposed==nominal-(extra>>hs),"single-page stream: end trimmed to the granule position (extra>>hs)"); WITNESS_AT("eos trim on the first page"); }
          else { long cut=extra>>hs; if(cut>nominal)cut=nominal; CHECK(exposed==nominal-cut,"short first page: beginning trimmed"); WITNESS_AT("first page trim"); }
        } else CHECK(exposed==nominal,"position adopted, nothing to trim");
      }
    }
#ifdef DATA
    /* ---- C11 ni-frame / C01: one arbitrary cell of the newly exposed region obeys the overlap-add rule ---- */
    { int prevCenter= cW0? 0 : n1; int n=ci.blocksizes[vb.W]>>(hs+1);
      int o=n1/2-n0/2; int span=(int)(full>>hs);
      /* exposed region = accumulator cells [prevCenter, prevCenter+span).  Cells of it that the specification fills by plain
         copy (no window arithmetic) must equal the block's samples; the windowed-overlap cells are checked for position only
         (their float values are outside the claim: bit-blasting 64 float multiply-adds per job did not finish in 900 s) */
      for(int k=0;k<BS1;k++) if(ret0!=-1 && k<span){
        if(W0 && !vb.W && k<o) CHECK(accum[prevCenter+k]==old[prevCenter+k] || old[prevCenter+k]!=old[prevCenter+k],"long->short: the head of the exposed region is the previous block's tail, untouched");
        if(!W0 && vb.W && k>=n0){ CHECK(accum[prevCenter+k]==blk[o+k] || blk[o+k]!=blk[o+k],"short->long: beyond the short window the exposed samples are this block's samples verbatim"); WITNESS_AT("copy region of a short->long transition"); }
      }
      /* frame: nothing outside [prevCenter,prevCenter+overlap span) and [thisCenter,thisCenter+n) is written */
      { int thisC= cW0? n1:0; int ovl_lo=prevCenter+((W0&&!vb.W)?o:0); int ovl_hi=prevCenter+((W0&&vb.W)?n1:((!W0&&vb.W)?n1/2+n0/2:((W0&&!vb.W)?o+n0:n0)));
        for(int c=0;c<BS1;c++) if(!((c>=ovl_lo&&c<ovl_hi)||(c>=thisC&&c<thisC+n))) CHECK(accum[c]==old[c] || old[c]!=old[c],"frame: cells outside the overlap span and the stored half are not written"); }
      /* the saved second half of this block (to be overlapped by the NEXT block) is a plain copy */
      { int thisCenter= cW0? n1:0; for(int k2=0;k2<BS1;k2++) if(k2<n) CHECK(accum[thisCenter+k2]==blk[n+k2] || blk[n+k2]!=blk[n+k2],"second half stored verbatim for the next overlap"); }
    }
#endif
  } else WITNESS_AT("track only");
  float **out; int s=vorbis_synthesis_pcmout(&v,&out);
  if(v.pcm_returned>=0){ CHECK(s==v.pcm_current-v.pcm_returned,"pcmout reports the exposed count"); if(s>0) CHECK(out[0]==accum+v.pcm_returned,"pcmout points at the exposed region"); }
  int rd=ND_irange(0,BS1); int before=v.pcm_returned; int rr=vorbis_synthesis_read(&v,rd);
  if(before>=0){ CHECK((rr==0)==(rd<=s),"synthesis_read accepts exactly n <= available"); if(rr==0) CHECK(v.pcm_returned==before+rd,"read advances the returned mark"); else CHECK(v.pcm_returned==before,"rejected read changes nothing"); }
}
