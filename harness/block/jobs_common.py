from vlib.runner import Job
def blockin_jobs(tier, which=None):
    cfgs=[(6,6,0),(6,7,0),(7,8,1),(7,7,1)] if tier=='quick' else [(6,6,0),(6,7,0),(6,8,0),(7,8,0),(7,8,1),(7,7,1),(8,8,1),(8,11,0),(8,11,1)]
    J=[]
    for e0,e1,hs in cfgs:
        if which and (e0,e1,hs) not in which: continue
        J.append(Job('blockin-step-%d-%d-hs%d'%(1<<e0,1<<e1,hs),'block/blockin_step.c',defs=['-DE0=%d'%e0,'-DE1=%d'%e1,'-DHS=%d'%hs],unwind=(1<<e1)+2,slice=True,fs_array=0,
            witnesses=['rejected','ordinary block','eos trim with known position','eos trim on the first page','first page trim','track only'],
            functions=['vorbis_synthesis_blockin','vorbis_synthesis_pcmout','vorbis_synthesis_read','_vorbis_window_get'],
            models=['real window tables (lib/window.c); block contents arbitrary floats (vorbis_synthesis output = M-dsp)'],
            bounds='block sizes (%d,%d), half-rate %d, 1 channel, positions/sequence < 2^40; inductive step from any V_dsp state => any packet history'%(1<<e0,1<<e1,hs),weight=3))
    dcfg=[(6,7,0)] if tier=='quick' else [(6,6,0),(6,7,0),(7,8,1),(6,8,0)]
    for e0,e1,hs in dcfg:
        for w0 in (0,1):
            for w1 in (0,1):
                for cw in ((0,) if tier=='quick' else (0,1)):
                    if which and (e0,e1,hs) not in which and which!='data': continue
                    J.append(Job('blockin-data-%d-%d-hs%d-%d%d%d'%(1<<e0,1<<e1,hs,w0,w1,cw),'block/blockin_step.c',defs=['-DE0=%d'%e0,'-DE1=%d'%e1,'-DHS=%d'%hs,'-DDATA','-DW0C=%d'%w0,'-DW1C=%d'%w1,'-DCWC=%d'%cw],
                        unwind=(1<<e1)+2,slice=True,witnesses=['ordinary block']+(['copy region of a short->long transition'] if (e0!=e1 and w0==0 and w1==1) else []),functions=['vorbis_synthesis_blockin'],
                        models=['real window tables'],bounds='block sizes (%d,%d), hs %d, previous W=%d, this W=%d, buffer half %d; every float value; one arbitrary observed cell'%(1<<e0,1<<e1,hs,w0,w1,cw),weight=4))
    return J

def lapout_jobs(tier):
    J=[]
    for e0,e1,hs in ([(6,7,0)] if tier=='quick' else [(6,6,0),(6,7,0),(6,8,0),(7,8,1)]):
        for lw in (0,1):
            for w in (0,1):
                for base in (0,1):
                    wit={(0,0):'short/short',(1,1):'long/long'}.get((lw,w),'long/short transition') if e0!=e1 else 'short/short'
                    J.append(Job('lapout-%d-%d-hs%d-%d%d%d'%(1<<e0,1<<e1,hs,lw,w,base),'block/lapout.c',defs=['-DE0=%d'%e0,'-DE1=%d'%e1,'-DHS=%d'%hs,'-DLWC=%d'%lw,'-DWC=%d'%w,'-DBASEC=%d'%base],unwind=(1<<e1)+2,
                        witnesses=['not primed',wit]+(['halves swapped'] if base else []),functions=['vorbis_synthesis_lapout'],
                        models=[],bounds='block sizes (%d,%d), hs %d, previous/current block flags (%d,%d), buffer half %d, 1 channel, no eos trim pending; any amount already read; every cell value'%(1<<e0,1<<e1,hs,lw,w,base),weight=2))
    return J
