/* C19/C02 lapout — vorbis_synthesis_lapout consolidates the pending output and the stored half block into one contiguous run.
 * real code : vorbis_synthesis_lapout (lib/block.c)
 * symbolic  : decoder accumulator state as vorbis_synthesis_blockin leaves it (either buffer half, any lW/W, any amount of the
 *             pending output already read), every float value
 * config    : -DE0 -DE1 -DHS; 1 channel
 * assert    : returns (pending output not yet read) + (half of the current block) samples; the exposed run is exactly those
 *             samples in stream order (cell-by-cell equality with the pre-state: lapping must not reorder, drop or smear audio);
 *             indices stay inside the buffer; state stays in V_dsp; pcm_returned<0 => 0 and nothing touched.
 * bound     : no end-of-stream trim pending (pcm_current at its nominal value)
 */
#include "verif.h"
#include <stdlib.h>
#include <string.h>
#include <ogg/ogg.h>
#include "block.c"
int ov_ilog(ogg_uint32_t v){ int ret; for(ret=0;v;ret++)v>>=1; return ret; }
#define BS0 (1<<E0)
#define BS1 (1<<E1)
static unsigned AU[BS1], O[BS1];   /* cells as bit patterns: lapout only moves samples, so equality is bitwise (no float semantics needed) */
#define A ((float*)AU)
void harness(void){
  vorbis_info vi; codec_setup_info ci; vorbis_dsp_state v; private_state b;
  memset(&vi,0,sizeof vi); memset(&ci,0,sizeof ci); memset(&v,0,sizeof v); memset(&b,0,sizeof b);
  vi.codec_setup=&ci; v.vi=&vi; v.backend_state=&b; vi.channels=1; ci.blocksizes[0]=BS0; ci.blocksizes[1]=BS1; int hs=HS; ci.halfrate_flag=hs;
  int n0=BS0>>(hs+1), n1=BS1>>(hs+1);
  float *pcmv[1]={A}; float *retv[1]={0}; v.pcm=pcmv; v.pcmret=retv; v.pcm_storage=BS1;
  v.W=WC; v.lW=LWC;   /* configuration: one job per (lW,W,buffer half) */ int n=ci.blocksizes[v.W]>>(hs+1); int nl=ci.blocksizes[v.lW]>>(hs+1);
  int span=(nl+n)/2;                       /* samples a block exposes: (lW/4+W/4)>>hs */
  int base=BASEC?n1:0; v.centerW=base; int other=base?0:n1;
  int rel=ND_irange(-1,BS1); ASSUME(rel<=span);
  int neg = rel<0;
  v.pcm_returned= neg? -1 : base+rel; v.pcm_current= neg? 0 : base+span;
  for(int i=0;i<BS1;i++){ AU[i]=ND_uint(); O[i]=AU[i]; }
  float **out=0; int r=vorbis_synthesis_lapout(&v,&out);
  if(neg){ CHECK(r==0,"nothing decoded yet => 0"); for(int i=0;i<BS1;i++) CHECK(AU[i]==O[i],"nothing touched"); WITNESS_AT("not primed"); return; }
  int pend=span-rel;
  CHECK(r==pend+n,"returns pending output + half of the current block");
  CHECK(out==retv && retv[0]>=A && retv[0]+r<=A+(BS1>>hs),"exposed run inside the buffer");
  CHECK(v.centerW==0 && v.pcm_returned>=0 && v.pcm_returned<=v.pcm_current,"state normalised to the lower half");
  CHECK(retv[0]==A+(n1-pend),"exposed run ends where the stored half block ends");
  for(int j=0;j<BS1;j++) if(j<n) CHECK(AU[n1+j]==O[other+j],"stored half block sits right after the pending output, verbatim");
  for(int q=1;q<=BS1;q++) if(q<=pend) CHECK(AU[n1-q]==O[base+span-q],"pending output ends at the block centre, in stream order, verbatim");
  if(v.lW!=v.W) WITNESS_AT("long/short transition"); else if(!v.W) WITNESS_AT("short/short"); else WITNESS_AT("long/long");
  if(base) WITNESS_AT("halves swapped");
}
