/* verif.h — common prelude of every harness.
 *
 * Under CBMC (__CPROVER__ defined by goto-cc): ND_*() are free solver variables; every
 * value drawn is also assigned to a per-type global (__ndv_*) so that the counterexample
 * trace lists the drawn values in execution order.
 * Under gcc -DREPLAY: ND_*() pop the values recorded from that trace (file named by
 * $VERIF_ND_FILE), ASSUME/CHECK become run-time tests, and main() calls harness().
 */
#ifndef VERIF_H
#define VERIF_H
#include <stdint.h>
#include <stddef.h>

#ifndef REPLAY
int nondet_int(void); unsigned nondet_uint(void); long nondet_long(void); unsigned long nondet_ulong(void);
unsigned char nondet_uchar(void); float nondet_float(void); double nondet_double(void);
static int __ndv_i32; static unsigned __ndv_u32; static long __ndv_i64; static unsigned long __ndv_u64;
static unsigned char __ndv_u8; static float __ndv_f32; static double __ndv_f64;
static inline int ND_int(void){ __ndv_i32=nondet_int(); return __ndv_i32; }
static inline unsigned ND_uint(void){ __ndv_u32=nondet_uint(); return __ndv_u32; }
static inline long ND_long(void){ __ndv_i64=nondet_long(); return __ndv_i64; }
static inline unsigned long ND_ulong(void){ __ndv_u64=nondet_ulong(); return __ndv_u64; }
static inline unsigned char ND_uchar(void){ __ndv_u8=nondet_uchar(); return __ndv_u8; }
static inline float ND_float(void){ __ndv_f32=nondet_float(); return __ndv_f32; }
static inline double ND_double(void){ __ndv_f64=nondet_double(); return __ndv_f64; }
#define ASSUME(c) __CPROVER_assume(c)
#ifdef WITNESS
#define CHECK(c,msg) ((void)0)
#define WITNESS_AT(msg) __CPROVER_assert(0,"witness: " msg)
#else
#define CHECK(c,msg) __CPROVER_assert((c),msg)
#define WITNESS_AT(msg) ((void)0)
#endif
#define VERIF_NATIVE 0
#else /* ---------------- native replay ---------------- */
#include <stdio.h>
#include <stdlib.h>
#include <string.h>
#define VERIF_NATIVE 1
static FILE *__nd_fp; static int __nd_exhausted;
static unsigned long __nd_pop(const char *kind){
  char k[16], bits[80];
  if(!__nd_fp){ const char *p=getenv("VERIF_ND_FILE"); if(p) __nd_fp=fopen(p,"r"); if(!__nd_fp){ __nd_exhausted=1; return 0; } }
  if(__nd_exhausted) return 0;
  if(fscanf(__nd_fp,"%15s %79s",k,bits)!=2){ __nd_exhausted=1; return 0; }
  if(strcmp(k,kind)){ printf("REPLAY-DESYNC want=%s got=%s\n",kind,k); fflush(stdout); exit(14); }
  unsigned long v=0; for(char *c=bits;*c;c++) v=(v<<1)|(unsigned long)(*c=='1'); return v;
}
static inline int ND_int(void){ return (int)(unsigned)__nd_pop("i32"); }
static inline unsigned ND_uint(void){ return (unsigned)__nd_pop("u32"); }
static inline long ND_long(void){ return (long)__nd_pop("i64"); }
static inline unsigned long ND_ulong(void){ return __nd_pop("u64"); }
static inline unsigned char ND_uchar(void){ return (unsigned char)__nd_pop("u8"); }
static inline float ND_float(void){ unsigned u=(unsigned)__nd_pop("f32"); float f; memcpy(&f,&u,4); return f; }
static inline double ND_double(void){ unsigned long u=__nd_pop("f64"); double f; memcpy(&f,&u,8); return f; }
#define ASSUME(c) do{ if(!(c)){ printf("REPLAY-ASSUME-FAILED %s:%d %s\n",__FILE__,__LINE__,#c); fflush(stdout); exit(11);} }while(0)
#define CHECK(c,msg) do{ if(!(c)){ printf("REPLAY-CHECK-FAILED %s:%d %s\n",__FILE__,__LINE__,msg); fflush(stdout); exit(10);} }while(0)
#define WITNESS_AT(msg) ((void)0)
#define __CPROVER_assume(c) ASSUME(c)
#define __CPROVER_assert(c,msg) CHECK(c,msg)
void harness(void);
int main(void){ harness(); printf("REPLAY-END\n"); return 0; }
#endif

#define ND_BOOL() (ND_uchar()&1)
/* draw a long in [lo,hi] */
static inline long ND_range(long lo,long hi){ long v=ND_long(); ASSUME(v>=lo && v<=hi); return v; }
static inline int ND_irange(int lo,int hi){ int v=ND_int(); ASSUME(v>=lo && v<=hi); return v; }
#endif
