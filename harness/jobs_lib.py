"""helpers shared by the per-property jobs.py files: load another job module, select jobs by tag/name"""
import importlib.util, os
H=os.path.dirname(os.path.abspath(__file__))
def load(rel):
    sp=importlib.util.spec_from_file_location('m_'+rel.replace('/','_'),os.path.join(H,rel)); m=importlib.util.module_from_spec(sp); sp.loader.exec_module(m); return m
def vf(tier,tag): return [j for j in load('vf/jobs_common.py').vf_jobs(tier) if tag in j.tags]
def blk(tier,pred=lambda j:True): return [j for j in load('block/jobs_common.py').blockin_jobs(tier) if pred(j)]
def other(pid,tier,pred=lambda j:True,fn='jobs'): return [j for j in getattr(load(pid+'/jobs.py'),fn)(tier) if pred(j)]
def lap(tier): return load('block/jobs_common.py').lapout_jobs(tier)
