/* C09/C10/C13 bisect-step — ONE level of the recursive link search (_bisect_forward_serialno) on a file that continues with
 * further links: the inductive step of chain-table construction, so the number of links is not bounded by this harness.
 * real code : _bisect_forward_serialno (one activation, the "more links follow" branch), _lookup_serialno, _lookup_page_serialno
 * cut       : the RECURSIVE call -> contract stub: checks the arguments it is given, then either fails with a documented code or builds
 *             the tables for L >= M+2 links the way the deepest activation does (fresh offsets/serialnos/dataoffsets/pcmlengths,
 *             vi/vc re-allocated with the existing entries kept), fills every entry above M+1 and the raw length of link M+1, and
 *             CLOBBERS vf->os.serialno and vf->offset (deeper header fetches);
 *             _seek_helper, _get_next_page, _get_prev_page_serial, _fetch_headers, _initial_pcmoffset -> oracles over an abstract file:
 *             the current link [B0,B1) with its last page, header end D1 of the next link, symbolic serial numbers / granules
 * config    : -DM = index of the current link (0 or 1)
 * assert    : the recursive call receives (start of next link, offset after its headers, end, endgran, endserial, ITS serial list, M+1);
 *             on success entry M+1 holds the next link's start offset, the serial number and data offset obtained by THIS activation's
 *             header fetch (not whatever a deeper activation left in vf->os), its info/comment objects, initial offset P1 and
 *             length max(raw-P1,0); entry M gets the current link's last granule; on EVERY failing exit nothing this activation
 *             allocated or was handed (serial list, info, comments) is leaked.
 */
#include <ogg/ogg.h>
#ifndef M
#define M 0
#endif
#define ogg_page_serialno env_ps_unused
#define VF_CUSTOM_BLOCKSIZE
#include "vf_env.h"
#undef ogg_page_serialno
static ogg_int64_t B0,B1,B2,END,D1,LASTP0,G0,P1,RAW,ENDGRAN;   /* B2: where the NEXT link ends (== D1 for a link without any audio page) */ static int S0,S1,ES; static int budget=8; static int cur=-1;
static long *g_list1; static int g_rec_calls=0, g_rec_fail=0; static ogg_int64_t g_after_hdr=-1; static void *g_setup1, *g_vendor1;
#include "vorbisfile.c"
long vorbis_packet_blocksize(vorbis_info *vi,ogg_packet *op){ CHECK(vi->channels==7,"block sizes on the first audio page of the NEXT link are computed with the info fetched for that link"); long r=ND_long(); ASSUME(r==OV_ENOTAUDIO||r==OV_EBADPACKET||r==64||r==2048); return r; }
static int _seek_helper(OggVorbis_File *vf,ogg_int64_t off){ CHECK(off>=0&&off<=END,"seek inside file"); if(ND_BOOL()) return OV_EREAD; vf->offset=off; return 0; }
static ogg_int64_t _get_next_page(OggVorbis_File *vf,ogg_page *og,ogg_int64_t boundary){
  ASSUME(budget>0); budget--;
  if(ND_BOOL()) return OV_EREAD;
  ogg_int64_t o=vf->offset, r=ND_long(), e=ND_long(); ASSUME(r>=0&&r<=END&&e>=0&&e<=END);
  if(o<=LASTP0){ ASSUME(r>=o && r<=LASTP0); if(o==B0) ASSUME(r==B0); ASSUME(e>r+26 && e<=B1); if(r==LASTP0) ASSUME(e==B1); cur=0; }
  else if(o<=B1){ r=B1; ASSUME(e>B1+26 && e<=END); cur=1; }
  else { if(ND_BOOL()) return OV_EOF; ASSUME(r>=o && e>r+26 && e<=END); cur=1; }
  og->header=env_hdr; og->header_len=27; og->body=env_body; og->body_len=0; vf->offset=e; return r; }
int ogg_page_serialno(const ogg_page *og){ CHECK(cur>=0,"page held"); return cur==0?S0:S1; }
static ogg_int64_t _get_prev_page_serial(OggVorbis_File *vf,ogg_int64_t begin,long *list,int n,int *serialno,ogg_int64_t *granpos){
  CHECK(begin==B1,"backward search for the current link's last page starts at the next link's first page");
  CHECK(n==1 && list[0]==S0,"searched with the CURRENT link's serial list");
  *serialno=S0; *granpos=G0; vf->offset=begin; return LASTP0; }
static int g_hdr_calls=0;
static int _fetch_headers(OggVorbis_File *vf,vorbis_info *vi,vorbis_comment *vc,long **list,int *n,ogg_page *og){
  g_hdr_calls++; CHECK(vf->offset==B1,"headers of the next link are fetched exactly at its first page");
  int r=ND_int(); if(r){ ASSUME(r==OV_EREAD||r==OV_ENOTVORBIS||r==OV_EBADHEADER||r==OV_EVERSION||r==OV_EFAULT);
    if(ND_BOOL()){ *list=malloc(sizeof(long)); (*list)[0]=S1; *n=1; }   /* the real one clears vi/vc on failure but may leave the serial numbers collected so far to the caller (as _ov_open1 expects) */
    return r; }
  memset(vi,0,sizeof *vi); memset(vc,0,sizeof *vc); vi->channels=7; vi->rate=12345; g_setup1=vi->codec_setup=malloc(8); g_vendor1=vc->vendor=malloc(1);
  g_list1=*list=malloc(sizeof(long)); (*list)[0]=S1; *n=1; vf->os.serialno=S1; vf->offset=D1; vf->ready_state=STREAMSET; return 0; }
#ifndef REAL_PCMOFF
static ogg_int64_t _initial_pcmoffset(OggVorbis_File *vf,vorbis_info *vi){ CHECK(vf->offset==D1 && vi->channels==7,"initial offset of the NEXT link computed at its first audio page with its info");
  /* the real one reads pages until one carries a granule position, or until it has READ the first page of the following link (a link
     without audio pages), or to the end of the file: the offset it leaves is inside the next link in the first case, BEYOND its end otherwise */
  vf->offset=ND_range(0,1L<<40); ASSUME(vf->offset>D1 && vf->offset<=END);
  if(B2>D1) ASSUME(vf->offset<=B2); else ASSUME(B2==END || vf->offset>=B2+27);
  g_after_hdr=vf->offset; return P1; }
#endif
static int _bisect_forward_serialno(OggVorbis_File *vf,ogg_int64_t begin,ogg_int64_t searched,ogg_int64_t end,ogg_int64_t endgran,int endserial,long *list,int n,long m){
  g_rec_calls++;
  CHECK(begin==B1,"recursion starts at the next link's first page");
  CHECK(searched>B1 && searched<=B2,"the search for the end of the next link starts INSIDE that link (also when it has no audio page at all)"); if(B2==D1 && B2<END) WITNESS_AT("next link has no audio pages");
  CHECK(end==END && endgran==ENDGRAN && endserial==ES,"end-of-file facts handed down unchanged"); CHECK(list==g_list1 && n==1 && m==M+1,"recursion gets the NEXT link's serial list and index");
  if(ND_BOOL()){ g_rec_fail=1; int r=ND_int(); ASSUME(r==OV_EREAD||r==OV_EBADLINK||r==OV_EBADHEADER||r==OV_ENOTVORBIS||r==OV_EVERSION||r==OV_EFAULT); return r; }
  int L=M+2+(ND_BOOL()?1:0); vf->links=L;
  if(vf->offsets)free(vf->offsets); if(vf->serialnos)free(vf->serialnos); if(vf->dataoffsets)free(vf->dataoffsets);
  vf->offsets=malloc((L+1)*sizeof(*vf->offsets)); vf->serialnos=malloc(L*sizeof(*vf->serialnos)); vf->dataoffsets=malloc(L*sizeof(*vf->dataoffsets)); vf->pcmlengths=malloc(L*2*sizeof(*vf->pcmlengths));
  vf->vi=realloc(vf->vi,L*sizeof(*vf->vi)); vf->vc=realloc(vf->vc,L*sizeof(*vf->vc));
  for(int i=0;i<M+3;i++) if(i<L){ vf->offsets[i]=ND_long(); vf->serialnos[i]=ND_long(); vf->dataoffsets[i]=ND_long(); vf->pcmlengths[2*i]=ND_long(); vf->pcmlengths[2*i+1]=ND_long(); }
  for(int i=M+1;i<M+3;i++) if(i<L){ memset(vf->vi+i,0,sizeof(*vf->vi)); memset(vf->vc+i,0,sizeof(*vf->vc)); }
  vf->offsets[L]=END; vf->offsets[M+1]=B1; vf->pcmlengths[2*(M+1)+1]=RAW;
  vf->os.serialno=ND_int(); vf->offset=ND_range(0,1L<<40);     /* deeper activations fetched other links' headers */
  return 0; }
void harness(void){
  B0=ND_range(0,1L<<20); ogg_int64_t len=ND_range(200,40000); B1=B0+len; END=B1+ND_range(200,40000);
  LASTP0=ND_range(0,1L<<21); ASSUME(LASTP0>B0+27 && LASTP0+27<=B1); D1=ND_range(0,1L<<21); ASSUME(D1>B1+27 && D1<END); B2=ND_range(0,1L<<21); ASSUME(B2>=D1 && B2<=END);
  G0=ND_range(-1,1L<<30); P1=ND_range(0,1L<<30); RAW=ND_range(0,1L<<30); ENDGRAN=ND_range(-1,1L<<30); S0=ND_int(); S1=ND_int(); ES=ND_int(); ASSUME(S0!=S1 && ES!=S0);
  OggVorbis_File vf; memset(&vf,0,sizeof vf); vf.datasource=&vf; vf.seekable=1; vf.ready_state=OPENED; vf.links=1;
  vf.vi=calloc(1,sizeof(*vf.vi)); vf.vc=calloc(1,sizeof(*vf.vc)); vf.vi[0].channels=3;
  vf.serialnos=calloc(3,sizeof(long)); vf.offsets=calloc(1,sizeof(ogg_int64_t)); vf.dataoffsets=calloc(1,sizeof(ogg_int64_t));
  vf.os.serialno=S0; ogg_int64_t searched=ND_range(0,1L<<21); ASSUME(searched>B0 && searched<=B1); vf.offset=searched;
  long list0[1]={S0};
  int r=_bisect_forward_serialno__real(&vf,B0,searched,END,ENDGRAN,ES,list0,1,M);
  if(r==0){
    CHECK(g_rec_calls==1 && g_hdr_calls==1,"one header fetch and one recursive activation per link");
    CHECK(vf.offsets[M+1]==B1,"next link's start offset");
    CHECK(vf.serialnos[M+1]==S1,"next link's serial number = the one obtained by THIS activation's header fetch");
    CHECK(vf.dataoffsets[M+1]==D1,"next link's data offset = offset after ITS headers");
    CHECK(vf.vi[M+1].channels==7 && vf.vi[M+1].codec_setup==g_setup1 && vf.vc[M+1].vendor==g_vendor1,"next link's info/comments are the ones fetched for it");
    CHECK(vf.pcmlengths[2*M+1]==G0,"current link's last granule recorded");
#ifndef REAL_PCMOFF
    CHECK(vf.pcmlengths[2*M+2]==P1,"next link's initial offset");
    CHECK(vf.pcmlengths[2*M+3]==(RAW-P1<0?0:RAW-P1),"next link's length = raw - initial offset, not negative");
#else
    CHECK(vf.pcmlengths[2*M+2]>=0 && vf.pcmlengths[2*M+3]>=0 && vf.pcmlengths[2*M+3]==(RAW-vf.pcmlengths[2*M+2]<0?0:RAW-vf.pcmlengths[2*M+2]),"next link: initial offset not negative, length = raw - initial offset, not negative");
#endif
    if(M==0) CHECK(vf.vi[0].channels==3,"first link's info survives the table rebuild");
    WITNESS_AT("link recorded"); if(vf.links==M+3) WITNESS_AT("more links follow");
    free(g_setup1); free(g_vendor1);
  }else{
    CHECK(r<0,"failure is a negative code");
    if(g_rec_fail) WITNESS_AT("deeper activation failed");
    else if(g_hdr_calls) WITNESS_AT("header fetch failed"); else WITNESS_AT("i/o failed during bisection");
  }
  g_list1=0; g_setup1=0; g_vendor1=0;   /* ghost copies must not keep leaked blocks reachable for the native replay's leak detector */
  /* what the caller (ov_clear after a failed open / a later ov_clear) releases */
  if(vf.offsets)free(vf.offsets); if(vf.serialnos)free(vf.serialnos); if(vf.dataoffsets)free(vf.dataoffsets); if(vf.pcmlengths)free(vf.pcmlengths); free(vf.vi); free(vf.vc);
}
