/* C09 chain-table — opening a chained file builds the link tables (real _open_seekable2 + _bisect_forward_serialno).
 * real code : _open_seekable2, _bisect_forward_serialno (recursive), ov_pcm_total (lib/vorbisfile.c)
 * cut       : _seek_helper, _get_next_page, _get_prev_page_serial, _fetch_headers, _initial_pcmoffset, ov_raw_seek -> oracles over
 *             an abstract chained file: KL links with symbolic boundaries, distinct serial numbers (any 32-bit value incl.
 *             >= 2^31), header ends, last-page starts, last granule positions and initial offsets; the page oracle returns SOME page
 *             consistent with the table for each query, so all page layouts are covered
 * assert    : links == KL; per link: start offset, data offset, serial number (sign-extended exactly as page serials are),
 *             initial pcm offset, length = max(max(g,0)-p,0), the info object the header oracle produced; total = sum.
 */
#include <ogg/ogg.h>
#ifndef KL
#define KL 2
#endif
#define ogg_page_serialno env_ps_unused
#include "vf_env.h"
#undef ogg_page_serialno
/* ---- abstract chained file ---- */
static ogg_int64_t B[KL+1];      /* link boundaries, B[0]=0, B[KL]=end */
static ogg_int64_t D[KL];        /* first audio page (end of headers) */
static ogg_int64_t LASTP[KL];    /* start of the last page of each link */
static ogg_int64_t G[KL],P[KL];  /* last granule, initial pcm offset */
static int SER[KL];
static int budget=FETCHES; static int cur_link=-1;
static int link_of(ogg_int64_t o){ for(int i=0;i<KL;i++) if(o>=B[i]&&o<B[i+1]) return i; return -1; }

#include "vorbisfile.c"
static int _seek_helper(OggVorbis_File *vf,ogg_int64_t off){ CHECK(off>=0&&off<=B[KL],"seek inside file"); vf->offset=off; return 0; }
static ogg_int64_t _get_next_page(OggVorbis_File *vf,ogg_page *og,ogg_int64_t boundary){
  ASSUME(budget>0); budget--;
  ogg_int64_t o=vf->offset; int L=link_of(o); if(L<0) return OV_EOF;
  if(o>LASTP[L]){ L++; if(L>=KL) return OV_EOF; o=B[L]; }             /* nothing left in this link: next page is the next link's first page */
  ogg_int64_t r=ND_long(), e=ND_long(); ASSUME(r>=0&&r<=B[KL]&&e>=0&&e<=B[KL]);
  ASSUME(r>=o && r<=LASTP[L]); if(o==B[L]) ASSUME(r==B[L]);   /* a link starts with a page */
  ASSUME(e>r+26 && e<=B[L+1]); if(r==LASTP[L]) ASSUME(e==B[L+1]);
  cur_link=L; og->header=env_hdr; og->header_len=27; og->body=env_body; og->body_len=0; vf->offset=e; return r; }
int ogg_page_serialno(const ogg_page *og){ CHECK(cur_link>=0,"page held"); return SER[cur_link]; }
/* contract of _get_prev_page_serial on a non-multiplexed chain */
static ogg_int64_t _get_prev_page_serial(OggVorbis_File *vf,ogg_int64_t begin,long *list,int n,int *serialno,ogg_int64_t *granpos){
  ASSUME(budget>0); budget--;
  CHECK(begin>0&&begin<=B[KL],"search start inside file");
  int L=link_of(begin-1); ogg_int64_t r=ND_long();
  { long sum=0; for(int i=0;i<n && i<2;i++) sum+=list[i];   /* the real search READS the list (for the first link it aliases vf->serialnos+2, which the deepest activation frees and replaces): every element must still be a live object here */
    CHECK(n>=1 && (sum==sum),"backward search is given a live serial-number list"); }
  ASSUME(r>=B[L] && r<begin && r<=LASTP[L]); if(begin>LASTP[L]) ASSUME(r==LASTP[L]);
  ogg_int64_t g = (r==LASTP[L])? G[L] : ND_long();
  *serialno=SER[L]; *granpos=g; vf->offset=begin; return r; }
static vorbis_info VI[KL]; static int hdr_link=-1; static int g_hdr_failed=0;
static int _fetch_headers(OggVorbis_File *vf,vorbis_info *vi,vorbis_comment *vc,long **list,int *n,ogg_page *og){
  int L=link_of(vf->offset); CHECK(L>=0 && vf->offset==B[L],"headers are fetched exactly at a link start");
#ifdef HDRFAIL
  if(ND_BOOL()){ g_hdr_failed=1; int e=ND_int(); ASSUME(e==OV_EREAD||e==OV_ENOTVORBIS||e==OV_EBADHEADER||e==OV_EVERSION||e==OV_EFAULT); return e; }   /* a later link that cannot be opened */
#endif
  memset(vi,0,sizeof *vi); memset(vc,0,sizeof *vc); vi->channels=L+1; vi->rate=1000+L; vi->codec_setup=0;
  *list=malloc(sizeof(long)); ASSUME(*list!=0); (*list)[0]=SER[L]; *n=1; vf->os.serialno=SER[L]; vf->offset=D[L]; vf->ready_state=STREAMSET; return 0; }
static ogg_int64_t _initial_pcmoffset(OggVorbis_File *vf,vorbis_info *vi){ int L=link_of(vf->offset); CHECK(L>=0&&vf->offset==D[L],"initial offset computed at first audio page"); vf->offset=ND_long(); ASSUME(vf->offset>D[L]&&vf->offset<=B[L+1]); return P[L]; }
int ov_raw_seek(OggVorbis_File *vf,ogg_int64_t pos){ return 0; }
static size_t c_read(void *p,size_t s,size_t n,void *d){ return 0; }
static int c_seek(void *d,ogg_int64_t o,int w){ return 0; }
static long c_tell(void *d){ return B[KL]; }

void harness(void){
  B[0]=0; for(int i=0;i<KL;i++){ ogg_int64_t len=ND_long(); ASSUME(len>=200&&len<=40000); B[i+1]=B[i]+len;
    D[i]=ND_long(); LASTP[i]=ND_long(); ASSUME(D[i]>=0&&D[i]<=B[i+1]&&LASTP[i]>=0&&LASTP[i]<=B[i+1]); ASSUME(D[i]>B[i]+27&&D[i]<=LASTP[i]&&LASTP[i]+27<=B[i+1]);
    G[i]=ND_long(); P[i]=ND_long(); ASSUME(G[i]>=-1&&G[i]<(1LL<<30)&&P[i]>=0&&P[i]<(1LL<<30)); SER[i]=ND_int(); }
  for(int i=0;i<KL;i++)for(int j=i+1;j<KL;j++)ASSUME(SER[i]!=SER[j]);
  /* handle as _ov_open1 leaves it (F-open proves this) */
  OggVorbis_File vf; memset(&vf,0,sizeof vf); vf.datasource=&vf; vf.seekable=1; vf.ready_state=OPENED;
  vf.callbacks.read_func=c_read; vf.callbacks.seek_func=c_seek; vf.callbacks.tell_func=c_tell;
  vf.links=1; vf.vi=calloc(1,sizeof(*vf.vi)); vf.vc=calloc(1,sizeof(*vf.vc)); ASSUME(vf.vi&&vf.vc); vf.vi[0].channels=1; vf.vi[0].rate=1000;
  vf.serialnos=calloc(3,sizeof(long)); vf.offsets=calloc(1,sizeof(ogg_int64_t)); vf.dataoffsets=calloc(1,sizeof(ogg_int64_t)); ASSUME(vf.serialnos&&vf.offsets&&vf.dataoffsets);
  vf.serialnos[0]=SER[0]; vf.serialnos[1]=1; vf.serialnos[2]=SER[0]; vf.os.serialno=SER[0]; vf.current_serialno=SER[0]; vf.dataoffsets[0]=D[0]; vf.offset=D[0];
  int r=_open_seekable2(&vf);
  if(g_hdr_failed){ CHECK(r<0,"a link whose headers cannot be fetched makes the open fail with a negative code (no table is filled from a failed search)"); WITNESS_AT("open failed on a later link"); free(vf.vi); free(vf.vc); if(vf.serialnos)free(vf.serialnos); if(vf.offsets)free(vf.offsets); if(vf.dataoffsets)free(vf.dataoffsets); return; }
  CHECK(r==0,"open of an intact chain succeeds");
  if(r==0){
    CHECK(vf.links==KL,"every link found");
    ogg_int64_t tot=0;
    for(int i=0;i<KL;i++){
      CHECK(vf.offsets[i]==B[i],"link start"); CHECK(vf.dataoffsets[i]==D[i],"data start"); CHECK(vf.serialnos[i]==SER[i],"serial");
      CHECK(vf.pcmlengths[2*i]==P[i],"initial offset");
      ogg_int64_t len=(G[i]<0?0:G[i])-P[i]; if(len<0)len=0; CHECK(vf.pcmlengths[2*i+1]==len,"length = last granule - initial offset, not negative"); tot+=len;
      CHECK(vf.vi[i].channels==i+1&&vf.vi[i].rate==1000+i,"per-link info"); }
    CHECK(vf.offsets[KL]>=LASTP[KL-1] && vf.offsets[KL]<=B[KL],"table closed at the last page of the file"); CHECK(ov_pcm_total(&vf,-1)==tot,"total is the sum");
    WITNESS_AT("chain opened"); if(SER[KL-1]<0) WITNESS_AT("serial number with the top bit set");
  }
}
