/* C19 lapseek/crosslap — ov_crosslap sizes the two lapping regions from the right handle's settings.
 * real code : ov_crosslap, ov_info, ov_halfrate_p (lib/vorbisfile.c)
 * cut       : _ov_initset, _ov_initprime, _ov_getlap, _ov_splice -> contract stubs that CHECK their arguments;
 *             vorbis_info_blocksize / vorbis_synthesis_halfrate_p / vorbis_window / vorbis_synthesis_lapout -> ghost per handle
 * symbolic  : short block sizes 64..4096 and half-rate flags of both handles (independent), channel counts 1..3,
 *             ready states, error returns of the priming steps
 * assert    : same handle => 0 and nothing touched; unopened handle => OV_EINVAL; priming errors propagate before anything
 *             is touched; the splice is asked to lap n1 = bs0(vf1)>>(1+hs(vf1)) samples of vf1 into the first
 *             n2 = bs0(vf2)>>(1+hs(vf2)) samples of vf2 with each handle's own window and channel count, and the lap
 *             buffers hold n1 floats per channel of vf1.
 */
#include "vf_env.h"
static vorbis_info g_vi[2]; static int g_bs0[2], g_hs[2]; static float g_w[2][1]; static float *g_pcm[3]; static float g_pcmbuf[8];
static int g_touched=0, g_spliced=0;
int vorbis_info_blocksize(vorbis_info *vi,int zo){ long i=vi-g_vi; CHECK(i>=0&&i<2&&zo==0,"short block size of one of the two handles"); return g_bs0[i]; }
int vorbis_synthesis_halfrate_p(vorbis_info *vi){ long i=vi-g_vi; return g_hs[i]; }
static OggVorbis_File *g_vf[2];
const float *vorbis_window(vorbis_dsp_state *v,int W){ int i=(v==&g_vf[0]->vd)?0:1; CHECK(W==0,"short window"); return g_w[i]; }
int vorbis_synthesis_lapout(vorbis_dsp_state *v,float ***pcm){ CHECK(v==&g_vf[1]->vd,"lapout on the second handle"); g_touched++; *pcm=g_pcm; return 16; }
#include "vorbisfile.c"
static int _ov_initset(OggVorbis_File *vf){ CHECK(vf==g_vf[0],"initset on the first handle"); int r=ND_int(); if(r){ ASSUME(r==OV_EOF||r==OV_HOLE||r==OV_EBADLINK||r==OV_EFAULT||r==OV_EREAD); return r;} return 0; }
static int _ov_initprime(OggVorbis_File *vf){ CHECK(vf==g_vf[1],"initprime on the second handle"); int r=ND_int(); if(r){ ASSUME(r==OV_EOF||r==OV_HOLE||r==OV_EBADLINK||r==OV_EFAULT||r==OV_EREAD); return r;} return 0; }
static int g_lapn=-1;
static void _ov_getlap(OggVorbis_File *vf,vorbis_info *vi,vorbis_dsp_state *vd,float **lappcm,int lapsize){
  CHECK(vf==g_vf[0] && vi==&g_vi[0] && vd==&g_vf[0]->vd,"lap taken from the first handle"); g_lapn=lapsize;
  for(int c=0;c<3;c++) if(c<vi->channels){ lappcm[c][0]=0.f; if(lapsize>0) lappcm[c][lapsize-1]=0.f; } }   /* writes first and last cell: buffer must hold lapsize floats */
static void _ov_splice(float **pcm,float **lappcm,int n1,int n2,int ch1,int ch2,const float *w1,const float *w2){
  g_spliced++;
  CHECK(n1==(g_bs0[0]>>(1+g_hs[0])) && n1==g_lapn,"n1 = half short block of the FIRST handle at ITS rate");
  CHECK(n2==(g_bs0[1]>>(1+g_hs[1])),"n2 = half short block of the SECOND handle at ITS rate");
  CHECK(ch1==g_vi[0].channels && ch2==g_vi[1].channels && w1==g_w[0] && w2==g_w[1] && pcm==g_pcm,"channels/windows of the respective handles"); }
void harness(void){
  static OggVorbis_File a,b; g_vf[0]=&a; g_vf[1]=&b;
  for(int i=0;i<2;i++){ g_vf[i]->vi=&g_vi[i]; g_vf[i]->links=1; g_vf[i]->seekable=0; g_vf[i]->ready_state=ND_irange(0,INITSET); ASSUME(g_vf[i]->ready_state!=1);
    g_vi[i].channels=ND_irange(1,3); int e=ND_irange(6,12); g_bs0[i]=1<<e; g_hs[i]=ND_irange(0,1); ASSUME(!(g_hs[i]&&e==6)); }
  for(int c=0;c<3;c++) g_pcm[c]=g_pcmbuf;
  int same=ND_BOOL();
  int r=ov_crosslap(&a, same?&a:&b);
  if(same){ CHECK(r==0 && g_touched==0 && g_spliced==0,"crosslapping a handle with itself is a no-op"); return; }
  if(a.ready_state<OPENED||b.ready_state<OPENED){ CHECK(r==OV_EINVAL && g_touched==0 && g_spliced==0,"unopened handle => OV_EINVAL, nothing touched"); WITNESS_AT("rejected"); return; }
  if(r){ CHECK(g_touched==0 && g_spliced==0,"priming error propagates before the second handle is touched"); WITNESS_AT("priming failed"); }
  else { CHECK(g_spliced==1 && g_touched==1,"exactly one splice"); if(g_hs[0]!=g_hs[1]) WITNESS_AT("spliced with differing half-rate flags"); }
}
