/* C03/C07/C09 F-fetch — _fetch_and_process_packet from an arbitrary handle state (inductive step of reading).
 * real code : _fetch_and_process_packet, _make_decode_ready, _decode_clear (lib/vorbisfile.c)
 * cut       : _get_next_page, _fetch_headers -> contract stubs; libogg stream layer + libvorbis decode = contract stubs
 * symbolic  : handle state under V_vf: seekable (1..NL links with exact-size tables, arbitrary serials/lengths) or streaming
 *             (1 info slot, no length table, current_link = links seen so far, any value 0..5); ready state OPENED..INITSET;
 *             op_in/readp/spanp; page serial numbers, BOS flags, packet granule positions
 * assert    : memory-safe (link tables indexed only inside `links`; streaming handles never touch the length table);
 *             documented return codes; decoder state used only while initialised (ghost) and initialised with the info of
 *             the current link; at a link boundary the serial number selects the link whose table entry matches;
 *             when the position is set from a packet's granule position it equals
 *             max(g - firstoffset(link),0) - samples_pending + sum(lengths of earlier links)   (C07 pos-fetch);
 *             every page is submitted to the stream layer at most once (C10: no hole indications on an intact stream, also across a
 *             link boundary of a streaming handle, where _fetch_headers has already submitted the page it leaves behind).
 */
#define VF_EXTRA_STUBS
static int g_og_submitted=0;   /* ghost: the page currently held in the fetch loop's page object has been submitted to the stream layer */
#define VF_PAGEIN_HOOK(os,og) do{ CHECK(!g_og_submitted,"a page is submitted to the stream layer ONCE (a second submission is reported by libogg as a hole and replays its packets: an intact chained stream read without seeking would report OV_HOLE at every link boundary)"); g_og_submitted=1; }while(0)
#include "vf_env.h"
static int g_pending=0; static int g_hs=0; static int g_blockins=0; static int g_np_err=0;   /* ghost: the page source reported end of data or a read error */
#define g_init_vi env_init_vi
#include "vorbisfile.c"
int vorbis_synthesis(vorbis_block *vb,ogg_packet *op){ CHECK(env_dsp_live==1 && env_blk_live==1,"vorbis_synthesis only on an initialised decoder"); return ND_BOOL()?0:OV_ENOTAUDIO; }
int vorbis_synthesis_blockin(vorbis_dsp_state *v,vorbis_block *vb){ CHECK(env_dsp_live==1,"blockin only on an initialised decoder"); g_pending=ND_irange(0,4096); g_blockins++; return 0; }
int vorbis_synthesis_pcmout(vorbis_dsp_state *v,float ***pcm){ CHECK(env_dsp_live==1,"pcmout only on an initialised decoder"); return g_pending; }
int vorbis_synthesis_halfrate_p(vorbis_info *vi){ return g_hs; }
static ogg_int64_t _get_next_page(OggVorbis_File *vf,ogg_page *og,ogg_int64_t boundary){
  if(env_budget<=0) return OV_EOF; env_budget--;
  ogg_int64_t r=ND_long(); if(r<0){ ASSUME(r==OV_FALSE||r==OV_EOF||r==OV_EREAD); g_np_err=1; return r; }
  ASSUME(r>=vf->offset && r<(1L<<40)); env_fill_page(og); g_og_submitted=0; vf->offset=r+27+4; return r; }
static int _fetch_headers(OggVorbis_File *vf,vorbis_info *vi,vorbis_comment *vc,long **serialno_list,int *serialno_n,ogg_page *og_ptr){
  CHECK(!vf->seekable && vi==vf->vi && vc==vf->vc && serialno_list==0,"streaming re-read of headers uses slot 0");
  int r=ND_int(); if(r){ ASSUME(r==OV_EREAD||r==OV_ENOTVORBIS||r==OV_EBADHEADER||r==OV_EVERSION||r==OV_EFAULT); return r; }
  vorbis_info_init(vi); vorbis_comment_init(vc); vi->rate=44100; vi->channels=ND_irange(1,255); vc->vendor=malloc(1);
  vf->os.serialno=ND_int(); vf->ready_state=STREAMSET; g_og_submitted=1; /* F-headers: the page left in *og_ptr has been submitted */ return 0; }
#ifndef NL
#define NL 3
#endif
void harness(void){
  OggVorbis_File vf; memset(&vf,0,sizeof vf); int ds=1; vf.datasource=&ds; vf.callbacks=env_cb;
  vf.seekable=ND_BOOL();
#ifdef HS
  g_hs=HS;   /* configuration: one job per half-rate setting (a symbolic shift in the exact position oracle doubled the solver time) */
#else
  g_hs=ND_irange(0,1);
#endif
  if(vf.seekable){
    vf.links=ND_irange(1,NL);
    vf.vi=calloc(vf.links,sizeof *vf.vi); vf.vc=calloc(vf.links,sizeof *vf.vc);
    vf.offsets=malloc((vf.links+1)*sizeof *vf.offsets); vf.dataoffsets=malloc(vf.links*sizeof *vf.dataoffsets);
    vf.serialnos=malloc(vf.links*sizeof *vf.serialnos); vf.pcmlengths=malloc(vf.links*2*sizeof *vf.pcmlengths);
    for(int i=0;i<NL;i++) if(i<vf.links){ vf.serialnos[i]=ND_int(); vf.pcmlengths[2*i]=ND_range(0,1L<<40); vf.pcmlengths[2*i+1]=ND_range(0,1L<<40); vf.offsets[i]=0; vf.dataoffsets[i]=0; vorbis_info_init(vf.vi+i); vf.vi[i].channels=1+i; }
    vf.offsets[vf.links]=0;
    vf.current_link=ND_irange(0,NL-1); ASSUME(vf.current_link<vf.links);
  }else{
    vf.links=1; vf.vi=calloc(1,sizeof *vf.vi); vf.vc=calloc(1,sizeof *vf.vc); vorbis_info_init(vf.vi); vf.vi[0].channels=2;
    vf.offsets=calloc(1,sizeof *vf.offsets); vf.dataoffsets=calloc(1,sizeof *vf.dataoffsets); vf.serialnos=calloc(3,sizeof *vf.serialnos);
    vf.current_link=ND_irange(0,5);       /* streaming: counts the links seen so far */
  }
  vf.ready_state=ND_irange(OPENED,INITSET); ASSUME(vf.seekable || vf.ready_state>=STREAMSET);
  if(vf.ready_state==INITSET){ env_dsp_live=1; env_blk_live=1; }
  vf.current_serialno=ND_int(); vf.pcm_offset=ND_range(-1,1L<<40); ogg_stream_init(&vf.os,(int)vf.current_serialno);
  ogg_int64_t po0=vf.pcm_offset; int link0=vf.current_link; /* samptrack/bittrack are doubles feeding only ov_bitrate_instant: outside this harness (double arithmetic on symbolic values does not finish) */
  ogg_packet opin; int use_in=ND_BOOL(); int readp=ND_BOOL(), spanp=ND_BOOL();
  int r=_fetch_and_process_packet(&vf,use_in?&opin:0,readp,spanp);
  CHECK(r==1||r==0||r==OV_EOF||r==OV_HOLE||r==OV_EBADLINK||r==OV_EFAULT||r==OV_EREAD||r==OV_ENOTVORBIS||r==OV_EBADHEADER||r==OV_EVERSION,"documented return code");
  if(g_np_err) CHECK(r==OV_EOF,"when no further page can be had (end of data OR read error) the fetch ends with OV_EOF: the lap-data collectors loop until they see exactly that code");
  CHECK(vf.ready_state>=OPENED && vf.ready_state<=INITSET,"ready state stays in range");
  CHECK((vf.ready_state==INITSET)==(env_dsp_live==1 && env_blk_live==1),"INITSET <=> decoder and block initialised (ghost)");
  if(vf.seekable){ CHECK(vf.current_link>=0 && vf.current_link<vf.links,"current link inside the table");
    if(vf.ready_state>=STREAMSET && (vf.current_link!=link0)) { CHECK(vf.serialnos[vf.current_link]==vf.current_serialno,"link selected by serial number"); WITNESS_AT("link changed"); } }
  if(vf.ready_state==INITSET && g_init_vi) CHECK(g_init_vi==vf.vi+(vf.seekable?vf.current_link:0),"decoder initialised with the current link's info");
  if(r==1){
    int link=vf.seekable?vf.current_link:0; ogg_int64_t acc=0; for(int i=0;i<NL;i++) if(i<link) acc+=vf.pcmlengths[2*i+1];
    ogg_int64_t first=(vf.seekable&&link>0)?vf.pcmlengths[2*link]:0;
    if(g_blockins==1){
      if(env_last_gran!=-1 && !env_last_eos){
        /* position set from the packet: recompute from the definition (full-rate units throughout) */
        ogg_int64_t g=env_last_gran-first; if(g<0) g=0;
        CHECK(vf.pcm_offset==g-((ogg_int64_t)g_pending<<g_hs)+acc,"position = max(granule - first offset,0) - (samples pending << hs) + lengths of earlier links");
        if(g_hs && g_pending>0) WITNESS_AT("position set at half rate with samples pending");
        WITNESS_AT("position set from a granule position");
      } else CHECK(vf.pcm_offset==po0,"a packet without a usable granule position leaves the position alone");
    }
    WITNESS_AT("packet processed");
  }
  if(!vf.seekable && r<=0 ) WITNESS_AT("streaming handle");
}
