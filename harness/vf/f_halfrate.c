/* C20 hs-toggle — ov_halfrate over a multi-link handle.
 * real code : ov_halfrate, ov_halfrate_p (lib/vorbisfile.c)
 * cut       : ov_pcm_seek -> contract stub (records its argument; succeeds or fails); vorbis_synthesis_halfrate -> per-link ghost
 *             flag, refuses (returns non-zero, flag untouched... and forces 0 as the real one does) for links marked as
 *             having 64-sample short blocks
 * symbolic  : 1..NL links, which links refuse, requested flag, ready state, position (incl. -1), previous flags
 * assert    : refusal => OV_EINVAL and EVERY link's flag is 0 afterwards; success => every link's flag == requested;
 *             an initialised decoder is dumped and the position re-established by a sample seek to the SAME position
 *             (when one was known); vi==NULL => OV_EINVAL.
 *             The stub of ov_pcm_seek models what the real one ends with on success (_make_decode_ready: decoder rebuilt for the
 *             current link, INITSET) and records the half-rate setting the rebuilt decoder was constructed for (window and MDCT
 *             lookups are sized blocksize>>hs at vorbis_synthesis_init time): that setting must be the one in force when
 *             ov_halfrate returns, on the accepting AND on the refusing path (D20).
 */
#include "vf_env.h"
#ifndef NL
#define NL 3
#endif
static int g_flag[NL], g_refuse[NL]; static vorbis_info *g_base; static int g_seeks=0; static ogg_int64_t g_seekpos=-7;
int vorbis_synthesis_halfrate(vorbis_info *vi,int flag){ long i=vi-g_base; CHECK(i>=0 && i<NL,"halfrate applied to a link of this handle");
  if(flag && g_refuse[i]){ g_flag[i]=0; return -1; } g_flag[i]=flag?1:0; return 0; }
int vorbis_synthesis_halfrate_p(vorbis_info *vi){ long i=vi-g_base; return g_flag[i]; }
#include "vorbisfile.c"
static int g_built=0, g_built_hs=-1;
int ov_pcm_seek(OggVorbis_File *vf,ogg_int64_t pos){ g_seeks++; g_seekpos=pos; CHECK(env_dsp_live==0,"decoder dumped before re-seeking");
  if(ND_BOOL()){ vf->pcm_offset=-1; g_built=0; return OV_EREAD; }
  vf->pcm_offset=pos; vf->ready_state=INITSET; env_dsp_live=1; env_blk_live=1; g_built=1; g_built_hs=g_flag[vf->current_link]; return 0; }
void harness(void){
  OggVorbis_File vf; memset(&vf,0,sizeof vf); int ds=1; vf.datasource=&ds; vf.callbacks=env_cb; vf.seekable=1;
  vf.links=ND_irange(1,NL); static vorbis_info vis[NL]; vf.vi=ND_BOOL()?&vis[0]:(vorbis_info*)0; g_base=vis;
  for(int i=0;i<NL;i++){ g_flag[i]=ND_irange(0,1); g_refuse[i]=ND_irange(0,1); }
  for(int i=1;i<NL;i++) ASSUME(g_flag[i]==g_flag[0]);          /* V_vf: all links carry the same flag */
  for(int i=0;i<NL;i++) if(g_refuse[i]) ASSUME(g_flag[i]==0);   /* a link with 64-sample short blocks is never at half rate */
  vf.current_link=ND_irange(0,NL-1); ASSUME(vf.current_link<vf.links);
  vf.ready_state=ND_irange(OPENED,INITSET); if(vf.ready_state==INITSET){ env_dsp_live=1; env_blk_live=1; }
  vf.pcm_offset=ND_range(-1,1L<<40); ogg_int64_t p0=vf.pcm_offset; int rs0=vf.ready_state;
  int flag=ND_irange(0,1);
  int r=ov_halfrate(&vf,flag);
  if(!vf.vi){ CHECK(r==OV_EINVAL,"no info => OV_EINVAL"); return; }
  int refused=0; for(int i=0;i<NL;i++) if(i<vf.links && flag && g_refuse[i]) refused=1;
  if(refused){
    CHECK(r==OV_EINVAL,"refused when any link has 64-sample short blocks");
    for(int i=0;i<NL;i++) if(i<vf.links) CHECK(g_flag[i]==0,"after a refusal every link decodes at full rate");
    CHECK(ov_halfrate_p(&vf)==0,"handle reports full rate after a refusal");
    WITNESS_AT("refused");
  }else{
    CHECK(r==0,"accepted");
    for(int i=0;i<NL;i++) if(i<vf.links) CHECK(g_flag[i]==flag,"every link carries the requested flag");
    WITNESS_AT("accepted");
  }
  if(g_built){ CHECK(g_built_hs==g_flag[vf.current_link],"the decoder rebuilt by the re-seek was constructed for the half-rate setting in force when ov_halfrate returns");
    }
  int untouched=(g_seeks==0 && vf.ready_state==rs0 && vf.pcm_offset==p0 && env_dsp_live==(rs0==INITSET));
  if(refused && untouched){ WITNESS_AT("refusal left the running decoder alone"); return; }   /* "leaving full-rate decoding intact at the same position" */
  if(rs0==INITSET){ CHECK(g_seeks>=1 || (env_dsp_live==0 && vf.ready_state<=STREAMSET),"decode machine dumped");
    if(p0>=0){ CHECK(g_seeks>=1 && g_seekpos==p0,"position re-established at the same sample"); WITNESS_AT("re-seek"); } else CHECK(g_seeks==0,"no seek without a known position"); }
  else CHECK(g_seeks==0,"no seek when no decoder was running");
}
