/* C03/C12/C13 F-headers — _fetch_headers (+ _ov_open1 around it) on arbitrary page/packet sequences.
 * real code : _fetch_headers, _add_serialno, _lookup_serialno, _lookup_page_serialno, _ov_open1 (-DVIA_OPEN), ov_clear (lib/vorbisfile.c)
 * cut       : _get_next_page -> contract stub (page with arbitrary header bytes, or OV_FALSE/OV_EOF/OV_EREAD); libogg stream layer
 *             and the libvorbis header parser are the contract stubs of vf_env.h
 * symbolic  : every page's flags/serial, every packet verdict, every failure point; in the direct mode vi/vc arrive with
 *             arbitrary (uninitialised-stack) contents, as _bisect_forward_serialno passes them
 * assert    : failure => documented code, vi/vc cleared-or-untouched (never freed from uninitialised contents), ready state
 *             OPENED, the caller's serial list either handed back intact or freed AND nulled (no double free in the caller);
 *             success => STREAMSET, vendor present, list non-empty, the last page read has been submitted to the stream layer; nothing leaks after
 *             the caller's clean-up.
 */
#include "vf_env.h"
#include "vorbisfile.c"
static int g_last_ser=0;   /* ghost: serial number of the page read last */
static ogg_int64_t _get_next_page(OggVorbis_File *vf,ogg_page *og,ogg_int64_t boundary){
  if(env_budget<=0) return OV_EOF; env_budget--;
  ogg_int64_t r=ND_long(); if(r<0){ ASSUME(r==OV_FALSE||r==OV_EOF||r==OV_EREAD); return r; }
  ASSUME(r>=vf->offset && r<(1L<<40)); env_fill_page(og); env_page_id++; g_last_ser=ogg_page_serialno(og); vf->offset=r+31; return r; }
void harness(void){
#ifdef VIA_OPEN
  OggVorbis_File vf; int ds=1;
  int r=_ov_open1(&ds,&vf,0,0,ND_BOOL()?env_cb:env_cb_noseek);
  if(r){ CHECK(r==OV_EREAD||r==OV_ENOTVORBIS||r==OV_EBADHEADER||r==OV_EVERSION||r==OV_EFAULT,"documented code"); CHECK(vf.datasource==0 && vf.vi==0 && vf.serialnos==0 && env_closes==0,"failed first stage: handle cleared, source not closed"); WITNESS_AT("open1 failed"); }
  else { CHECK(vf.ready_state==PARTOPEN && vf.serialnos && vf.serialnos[1]>=1,"partial open holds the serial list"); WITNESS_AT("open1 ok"); vf.datasource=0; ov_clear(&vf); }
#else
  OggVorbis_File vf; memset(&vf,0,sizeof vf); int ds=1; vf.datasource=&ds; vf.callbacks=env_cb; vf.seekable=1;
  ogg_stream_init(&vf.os,-1);
  vorbis_info vi; vorbis_comment vc;        /* arbitrary prior contents (what an uninitialised stack object holds), drawn explicitly so that the native replay sees the same bytes */
  { unsigned char *p=(unsigned char*)&vi; for(unsigned i=0;i<sizeof vi;i++) p[i]=ND_uchar(); p=(unsigned char*)&vc; for(unsigned i=0;i<sizeof vc;i++) p[i]=ND_uchar(); }
  long *list=0; int n=0;
  int r=_fetch_headers(&vf,&vi,&vc,&list,&n,0);
  if(r){ CHECK(r==OV_EREAD||r==OV_ENOTVORBIS||r==OV_EBADHEADER||r==OV_EVERSION||r==OV_EFAULT,"documented code");
    CHECK(vf.ready_state<=OPENED,"failure leaves the handle without a selected stream");
    CHECK((list==0)==(n==0),"serial list and its count stay consistent");
    WITNESS_AT("failed"); if(list==0 && n==0 && env_budget<ENV_BUDGET-2) WITNESS_AT("failed after some pages"); }
  else { CHECK(vf.ready_state==STREAMSET && vc.vendor!=0 && list!=0 && n>=1,"success: stream selected, headers stored, serial list non-empty"); WITNESS_AT("headers fetched");
    CHECK(env_page_in==env_page_id || g_last_ser!=vf.os.serialno,"success: the page left in the caller's page object has already been submitted to the stream, or belongs to another stream (contract used by F-fetch: it must not be submitted again)");
    vorbis_info_clear(&vi); vorbis_comment_clear(&vc); }
  if(list) free(list);
  ogg_stream_clear(&vf.os);
#endif
}
