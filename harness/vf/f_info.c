/* C03/C09/C12 F-info — the query functions on an arbitrary valid handle (any point of any call history, incl. after a failed seek).
 * real code : ov_streams, ov_seekable, ov_serialnumber, ov_raw_total, ov_pcm_total, ov_time_total, ov_bitrate, ov_info, ov_comment,
 *             ov_raw_tell, ov_pcm_tell, ov_time_tell (lib/vorbisfile.c)
 * symbolic  : seekable (1..NL links, exact-size tables: offsets[links+1], dataoffsets/serialnos[links], pcmlengths[2*links], vi/vc[links])
 *             or streaming (one slot); ready state incl. unopened; current link; recorded position incl. -1 ("unknown": what every
 *             failed seek leaves behind); the link argument -2..NL+1
 * config    : -DWHICH 0 = integer queries, 1 = time queries (doubles; sample rates concrete)
 * assert    : memory-safe: tables are only indexed inside `links` for EVERY argument and EVERY recorded position;
 *             out-of-range link / unopened handle / streaming => the documented OV_EINVAL (NULL for info/comment);
 *             totals over the chain (-1) equal the sum of the per-link results; ov_info/ov_comment(-1) = current link once a link is
 *             selected; ov_serialnumber(i) = table entry (last link for i >= links).
 */
#include "vf_env.h"
int vorbis_synthesis_halfrate_p(vorbis_info *vi){ return 0; }
#include "vorbisfile.c"
#ifndef NL
#define NL 3
#endif
#ifndef WHICH
#define WHICH 0
#endif
void harness(void){
  OggVorbis_File vf; memset(&vf,0,sizeof vf); int ds=1; vf.datasource=&ds; vf.callbacks=env_cb;
  vf.seekable=ND_BOOL();
  vf.links= vf.seekable? ND_irange(1,NL) : 1;
  vf.vi=calloc(vf.links,sizeof *vf.vi); vf.vc=calloc(vf.links,sizeof *vf.vc);
  vf.offsets=malloc((vf.links+1)*sizeof *vf.offsets); vf.dataoffsets=malloc(vf.links*sizeof *vf.dataoffsets);
  vf.serialnos=malloc(vf.links*sizeof *vf.serialnos); vf.pcmlengths= vf.seekable? malloc(vf.links*2*sizeof *vf.pcmlengths) : 0;
  ogg_int64_t o=0, ptot=0, rtot=0;
  for(int i=0;i<NL;i++) if(i<vf.links){ vf.offsets[i]=o; ogg_int64_t h=ND_range(1,1L<<20), d=ND_range(0,1L<<30); vf.dataoffsets[i]=o+h; o+=h+d; rtot+=h+d;
    vf.serialnos[i]=ND_int(); if(vf.seekable){ vf.pcmlengths[2*i]=ND_range(0,1L<<20); vf.pcmlengths[2*i+1]=ND_range(0,1L<<32); ptot+=vf.pcmlengths[2*i+1]; }
    vf.vi[i].rate= i==0?44100: i==1?8000:48000; vf.vi[i].channels=i+1; vf.vi[i].bitrate_nominal=ND_long(); vf.vi[i].bitrate_upper=ND_long(); vf.vi[i].bitrate_lower=ND_long(); }
  vf.offsets[vf.links]=o; vf.end=o;
  vf.ready_state=ND_irange(NOTOPEN,INITSET); vf.current_link= vf.seekable? ND_irange(0,NL-1) : ND_irange(0,5); ASSUME(!vf.seekable || vf.current_link<vf.links);
  vf.current_serialno=ND_int(); vf.pcm_offset=ND_range(-1,1L<<34); vf.offset=ND_range(0,1L<<31);
  int i=ND_irange(-2,NL+1);
  CHECK(ov_streams(&vf)==vf.links && ov_seekable(&vf)==vf.seekable,"streams / seekable report the handle");
#if WHICH==0
  { long s=ov_serialnumber(&vf,i); if(vf.seekable && i>=0) CHECK(s==vf.serialnos[i<vf.links?i:vf.links-1],"serial number of link i (last link beyond the end)"); else CHECK(s==vf.current_serialno,"serial number of the current link"); }
  { ogg_int64_t r=ov_raw_total(&vf,i), p=ov_pcm_total(&vf,i);
    if(vf.ready_state<OPENED || !vf.seekable || i>=vf.links){ CHECK(r==OV_EINVAL && p==OV_EINVAL,"totals: unopened / streaming / link out of range => OV_EINVAL"); WITNESS_AT("query refused"); }
    else if(i<0){ CHECK(r==rtot && p==ptot,"chain totals = sums over the links"); WITNESS_AT("chain totals"); }
    else { CHECK(r==vf.offsets[i+1]-vf.offsets[i] && p==vf.pcmlengths[2*i+1],"per-link totals from the tables"); } }
  { vorbis_info *a=ov_info(&vf,i); vorbis_comment *c=ov_comment(&vf,i);
    if(!vf.seekable) CHECK(a==vf.vi && c==vf.vc,"streaming: the one current slot");
    else if(i>=vf.links) CHECK(a==0 && c==0,"info/comment: link out of range => NULL");
    else if(i>=0) CHECK(a==vf.vi+i && c==vf.vc+i,"info/comment of link i");
    else CHECK(a==vf.vi+(vf.ready_state>=STREAMSET?vf.current_link:0) && c==vf.vc+(vf.ready_state>=STREAMSET?vf.current_link:0),"info/comment(-1) = link being decoded"); }
  { ogg_int64_t t=ov_pcm_tell(&vf), rt=ov_raw_tell(&vf); if(vf.ready_state<OPENED) CHECK(t==OV_EINVAL && rt==OV_EINVAL,"tell on an unopened handle => OV_EINVAL"); else CHECK(t==vf.pcm_offset && rt==vf.offset,"tell reports the recorded positions"); }
  { long b=ov_bitrate(&vf,i); if(vf.ready_state<OPENED || i>=vf.links) CHECK(b==OV_EINVAL,"bitrate: unopened / out of range => OV_EINVAL"); }
#else
  { double t=ov_time_total(&vf,i); if(vf.ready_state<OPENED || !vf.seekable || i>=vf.links){ CHECK(t==(double)OV_EINVAL,"time total refused"); WITNESS_AT("query refused"); } else CHECK(t>=0.,"time total non-negative"); }
  { double t=ov_time_tell(&vf); if(vf.ready_state<OPENED) CHECK(t==(double)OV_EINVAL,"time tell refused on an unopened handle"); else { if(vf.pcm_offset<0 && vf.seekable) WITNESS_AT("time tell with an unknown position"); CHECK(t==t,"time tell is a number"); } }
#endif
  free(vf.vi); free(vf.vc); free(vf.offsets); free(vf.dataoffsets); free(vf.serialnos); if(vf.pcmlengths) free(vf.pcmlengths);
}
