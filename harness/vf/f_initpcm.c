/* C04/C09 F-initpcm — the initial PCM offset of a link (what makes ov_pcm_total report N for a stream of N samples).
 * real code : _initial_pcmoffset (lib/vorbisfile.c)
 * cut       : _get_next_page -> abstract page source: fails, or hands out a page with arbitrary header bytes (flags, serial number, granule
 *             position); ogg_stream_packetout / vorbis_packet_blocksize -> stubs of vf_env.h, the latter with a GHOST that accumulates, per
 *             the Vorbis I definition, the samples the packets handed out so far decode to (first audio packet: none; every later one:
 *             (previous block + this block)/4; non-audio packets and holes: nothing)
 * symbolic  : every page (<= NPG), every packet event (<= ENV_BUDGET), every block size out of {64,128,2048} or a non-audio result
 * assert    : result = max(0, G - S) where G = granule position of the first page of THIS stream that carries one and S = ghost sample count of
 *             all packets up to and including that page (no value claimed when the source ends or the next link begins before such a page);
 *             pages of other streams are neither submitted nor counted; the block sizes are asked of the info that was passed in.
 */
#define VF_CUSTOM_BLOCKSIZE
#include "vf_env.h"
#include "vorbisfile.c"
#ifndef NPG
#define NPG 3
#endif
static ogg_int64_t g_samples=0; static long g_lastbs=-1; static vorbis_info *g_vi=0;
static int g_curpg=0; static ogg_int64_t g_curgran=0;
static int g_pages=0, g_cur_foreign=0, g_done=0; static ogg_int64_t g_expect=0;
long vorbis_packet_blocksize(vorbis_info *vi,ogg_packet *op){
  CHECK(vi==g_vi,"block sizes are taken from the info of the link being measured");
  CHECK(!g_cur_foreign && g_curpg!=0,"packets are pulled only after a page of THIS stream was submitted");
  long r=ND_long(); ASSUME(r==OV_ENOTAUDIO||r==OV_EBADPACKET||r==64||r==128||r==2048);
  if(r>=0){ if(g_lastbs!=-1) g_samples+=(g_lastbs+r)>>2; g_lastbs=r; }
  return r; }
#define MYSER 0x1234
static ogg_int64_t _get_next_page(OggVorbis_File *vf,ogg_page *og,ogg_int64_t boundary){
  CHECK(boundary==-1,"reads forward without a boundary");
  CHECK(!g_done,"nothing is read after the page that decides the offset");
  if(g_pages>=NPG || ND_BOOL()){ g_done=1; g_expect=0; return ND_BOOL()?OV_EOF:OV_EREAD; }
  g_pages++; env_fill_page(og); g_curpg=1; g_curgran=ogg_page_granulepos(og);
  if(ogg_page_bos(og)){ g_done=1; g_expect=0; }                    /* the next link starts: this link had no audio page with a position */
  g_cur_foreign=(ogg_page_serialno(og)!=MYSER);
  return 0; }
void harness(void){
  OggVorbis_File vf; memset(&vf,0,sizeof vf); vf.datasource=&vf; vf.seekable=1; vf.os.serialno=MYSER;
  vorbis_info vi; memset(&vi,0,sizeof vi); g_vi=&vi;
  ogg_int64_t r=_initial_pcmoffset(&vf,&vi);
  /* oracle: the last page handed out decides, unless the source ended / a bos page came */
  if(!g_done){
    CHECK(g_curpg!=0 && !g_cur_foreign && g_curgran!=-1,"stops only at a page of this stream that carries a granule position");
    ogg_int64_t G=g_curgran;
    if(G<(1L<<62) && G>-(1L<<62)){ /* positions beyond +-2^62: the subtraction wraps; outside the claim */ g_expect=G<0?0:G-g_samples; if(g_expect<0) g_expect=0; CHECK(r==g_expect,"initial offset = granule position of the first positioned page minus the samples decoded up to it, not below zero");
      if(g_expect>0 && g_samples>0) WITNESS_AT("positive offset after counted packets"); if(G>=0 && G-g_samples<0) WITNESS_AT("clamped to zero"); }
  }else{ WITNESS_AT("no positioned page"); }   /* truncated / mangled link: no value claimed (the code returns the samples counted so far) */
  CHECK(r>=0,"never negative");
}
