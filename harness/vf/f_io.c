/* C10/C12/C03 F-io — the only code that sees how bytes are delivered: _get_data, _seek_helper, _get_next_page.
 * real code : _get_data, _seek_helper, _get_next_page (lib/vorbisfile.c)
 * env       : read callback returns any 0..requested (0 with any errno), seek callback may fail, libogg sync layer as contract
 *             stub with ghost accounting (bytes handed to ogg_sync_wrote must be exactly what read_func returned, within
 *             the buffer it was given)
 * assert    : read_func is only ever asked for (1, READSIZE) into the buffer ogg_sync_buffer returned for READSIZE;
 *             every byte count read is reported to the sync layer exactly once; a failing seek returns OV_EREAD and
 *             leaves vf->offset (the library's idea of the file position) and the sync buffer untouched; a successful
 *             seek sets the offset and resets the sync layer; _get_next_page returns page start offsets, advances the
 *             offset monotonically by exactly the bytes skipped/consumed, respects the boundary and terminates within
 *             the event budget with OV_FALSE / OV_EOF / OV_EREAD.
 */
#define ogg_sync_wrote real_stub_wrote_unused
#define ogg_sync_buffer real_stub_buffer_unused
#define ogg_sync_reset real_stub_reset_unused
#define ogg_sync_pageseek real_stub_pageseek_unused
#include "vf_env.h"
#undef ogg_sync_wrote
#undef ogg_sync_buffer
#undef ogg_sync_reset
#undef ogg_sync_pageseek
static long g_bufreq=-1, g_wrote_total=0, g_read_total=0, g_last_read=-1; static int g_resets=0; static long g_skipped=0;
char *ogg_sync_buffer(ogg_sync_state *oy,long size){ g_bufreq=size; CHECK(size==2048,"ogg_sync_buffer asked for READSIZE"); return env_syncbuf; }
int ogg_sync_wrote(ogg_sync_state *oy,long bytes){ CHECK(bytes>0 && bytes<=g_bufreq && bytes==g_last_read,"ogg_sync_wrote reports exactly the bytes the read callback delivered"); g_wrote_total+=bytes; g_last_read=-1; return 0; }
int ogg_sync_reset(ogg_sync_state *oy){ g_resets++; return 0; }
long ogg_sync_pageseek(ogg_sync_state *oy,ogg_page *og){ if(env_budget<=0) return 0; env_budget--; long r=ND_range(-65536,65307); if(r>0) env_fill_page(og); if(r<0) g_skipped-=r; return r; }
static size_t io_read(void *ptr,size_t size,size_t nmemb,void *ds){
  CHECK(ptr==(void*)env_syncbuf && size==1 && nmemb==2048,"read callback is asked for READSIZE bytes into the sync buffer");
  CHECK(g_last_read<=0,"previous read result was handed to the sync layer before reading again");
  if(env_budget<=0){ g_last_read=0; return 0; } env_budget--;
  long r=ND_range(0,2048); if(r==0) errno=ND_int(); g_last_read=r; g_read_total+=r; return (size_t)r; }
#include "vorbisfile.c"
void harness(void){
  OggVorbis_File vf; memset(&vf,0,sizeof vf); int ds=1; vf.datasource=ND_BOOL()?&ds:0; vf.seekable=1;
  vf.callbacks.read_func=io_read; vf.callbacks.seek_func=ND_BOOL()?cb_seek:0; vf.callbacks.tell_func=cb_tell; vf.callbacks.close_func=cb_close;
  vf.offset=ND_range(0,1L<<31);
  int which=ND_irange(0,2);
  if(which==0){
    long r=_get_data(&vf);
    CHECK(r>=-1 && r<=2048,"_get_data result range");
    CHECK(g_wrote_total==(r>0?r:0) && g_read_total==g_wrote_total,"bytes read == bytes handed to the sync layer");
    if(!vf.datasource) CHECK(r==0,"no data source: end of data");
    if(r>0) WITNESS_AT("data read");
  }else if(which==1){
    ogg_int64_t target=ND_range(0,1L<<31); ogg_int64_t off0=vf.offset;
    int r=_seek_helper(&vf,target);
    if(r){ CHECK(r==OV_EREAD||r==OV_EFAULT,"documented seek failure code");
           CHECK(vf.offset==off0,"failed seek leaves the library's file position untouched");
           CHECK(g_resets==0,"failed seek does not discard buffered data");
           if(r==OV_EREAD) WITNESS_AT("seek failed"); }
    else { CHECK(vf.offset==target,"successful seek sets the position"); CHECK((g_resets==1)==(off0!=target),"sync layer reset iff the position moved"); WITNESS_AT("seek ok"); }
    CHECK(env_closes==0,"never closes the data source");
  }else{
    ogg_page og; ogg_int64_t boundary=ND_range(-1,1L<<20); ogg_int64_t off0=vf.offset;
    ogg_int64_t r=_get_next_page(&vf,&og,boundary);
    CHECK(vf.offset>=off0,"offset never moves backwards while scanning forward");
    if(r>=0){ CHECK(r==off0+g_skipped && vf.offset>r && vf.offset-r<=65307,"page offset = start + bytes skipped; offset advanced past the page"); if(boundary>0) CHECK(r<off0+boundary,"page begins before the boundary"); WITNESS_AT("page found"); }
    else { CHECK(r==OV_FALSE||r==OV_EOF||r==OV_EREAD,"documented failure code"); CHECK(vf.offset==off0+g_skipped,"offset advanced by exactly the bytes skipped");
           if(boundary==0) CHECK(g_read_total==0,"boundary 0 reads no new data"); if(r==OV_EOF) WITNESS_AT("end of data"); }
    CHECK(g_read_total==g_wrote_total || g_last_read==0,"all bytes read were handed to the sync layer");
  }
}
