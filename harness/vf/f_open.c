/* C03/C12/C13 F-open — ov_open_callbacks / ov_test_callbacks+ov_test_open / ov_clear.
 * real code : ov_open_callbacks, ov_test_callbacks, ov_test_open, _ov_open1, _ov_open2, ov_clear (lib/vorbisfile.c)
 * cut       : _fetch_headers -> contract (fails with a documented code leaving vi/vc cleared, or fills vi/vc and hands back
 *             a serial-number list of 0..2 entries; its own harness is F-headers);
 *             _open_seekable2 -> contract (0, or a documented error, tables untouched; its own harness is chain-table)
 * symbolic  : seekable or not (seek probe result), which stage fails with which code, fault injection in callbacks
 * assert    : failed open => handle all-zero, close callback NOT invoked, nothing leaked; successful open => documented
 *             state; ov_clear closes exactly once and zeroes the handle; a second ov_clear is a no-op.
 */
#define ogg_sync_wrote env_sw_unused
#include "vf_env.h"
#undef ogg_sync_wrote
static long g_wrote=-1; static int g_wrote_calls=0;
int ogg_sync_wrote(ogg_sync_state *oy,long bytes){ g_wrote=bytes; g_wrote_calls++; return 0; }
#include "vorbisfile.c"
static int hdr_calls=0; static ogg_int64_t g_hdr_end=-1; static long g_hdr_serial; static int g_hdr_n;
static int _fetch_headers(OggVorbis_File *vf,vorbis_info *vi,vorbis_comment *vc,long **serialno_list,int *serialno_n,ogg_page *og_ptr){
  hdr_calls++;
  /* vf->offset counts stream bytes CONSUMED as pages; bytes the application read ahead (initial/ibytes) sit in the sync buffer and
     are not consumed yet: every page offset recorded during open is relative to this zero */
  CHECK(vf->offset==0,"no stream byte is accounted as consumed before the first page is fetched (pre-read bytes stay in the sync buffer)");
  int r=ND_int();
  if(r){ ASSUME(r==OV_EREAD||r==OV_ENOTVORBIS||r==OV_EBADHEADER||r==OV_EVERSION||r==OV_EFAULT); return r; }
  vorbis_info_init(vi); vorbis_comment_init(vc); vi->rate=44100; vi->channels=ND_irange(1,255); vc->vendor=malloc(1);
  int n=ND_irange(1,2);   /* success implies at least the Vorbis BOS page's serial number was recorded */ if(serialno_list){ *serialno_list=n?malloc(n*sizeof(long)):0; for(int i=0;i<n;i++)(*serialno_list)[i]=ND_long(); *serialno_n=n; }
  vf->os.serialno=ND_int(); vf->offset=ND_range(0,1L<<30); vf->ready_state=STREAMSET; g_hdr_end=vf->offset; g_hdr_serial=vf->os.serialno; g_hdr_n=n;
  return 0; }
static int _open_seekable2(OggVorbis_File *vf){
  CHECK(vf->seekable && vf->ready_state==OPENED && vf->links==1 && vf->serialnos && vf->offsets && vf->dataoffsets,"precondition of _open_seekable2");
  int r=ND_int(); if(r){ ASSUME(r==OV_EREAD||r==OV_EINVAL||r==OV_EBADLINK||r==OV_EFAULT||r==OV_ENOTVORBIS||r==OV_EBADHEADER||r==OV_EVERSION); return r; }
  return 0; }
static int all_zero(const OggVorbis_File *vf){ return vf->datasource==0 && vf->seekable==0 && vf->offset==0 && vf->end==0 && vf->links==0 && vf->offsets==0 && vf->dataoffsets==0 && vf->serialnos==0 && vf->pcmlengths==0 && vf->vi==0 && vf->vc==0 && vf->pcm_offset==0 && vf->ready_state==0 && vf->current_serialno==0 && vf->current_link==0 && vf->callbacks.read_func==0 && vf->callbacks.seek_func==0 && vf->callbacks.close_func==0 && vf->callbacks.tell_func==0 && vf->os.body_data==0 && vf->vd.vi==0; }
void harness(void){
  OggVorbis_File vf; int ds=1; int seekable=ND_BOOL(); int twostage=ND_BOOL();
  ov_callbacks cb= seekable? env_cb : env_cb_noseek;
  int r; static char initial[4]; long ib=ND_range(0,4); int use_initial=ND_BOOL(); for(int i=0;i<4;i++) initial[i]=(char)ND_uchar();
  const char *ini=0; if(use_initial) ini=&initial[0]; if(!use_initial) ib=0;
  if(twostage){ r=ov_test_callbacks(&ds,&vf,ini,ib,cb); if(r==0){ CHECK(vf.ready_state==PARTOPEN && env_closes==0,"partial open"); r=ov_test_open(&vf); } }
  else r=ov_open_callbacks(&ds,&vf,ini,ib,cb);
  if(use_initial){ CHECK(g_wrote_calls==1 && g_wrote==ib,"pre-read bytes are handed to the sync layer once, with their exact count"); if(ib>0) WITNESS_AT("opened with pre-read bytes"); }
  else CHECK(g_wrote_calls==0,"nothing submitted to the sync layer without pre-read bytes");
  if(r){
    CHECK(r<0,"failed open returns a negative code");
    CHECK(env_closes==0,"failed open does not close the data source");
    CHECK(all_zero(&vf),"failed open leaves the handle cleared");
    WITNESS_AT("open failed");
    if(hdr_calls && seekable && !env_seek_fail) WITNESS_AT("open failed with a seekable source");
  }else{
    CHECK(env_closes==0,"successful open does not close the data source");
    CHECK(vf.datasource==&ds && vf.links==1 && vf.vi && vf.vc,"open: one link described");
    CHECK(vf.ready_state==(vf.seekable?OPENED:STREAMSET),"open: ready state");
    CHECK(vf.offsets[0]==0 && vf.dataoffsets[0]==g_hdr_end,"first link starts at stream offset 0; its audio starts where the header fetch stopped");
    CHECK(vf.serialnos[0]==g_hdr_serial && vf.current_serialno==g_hdr_serial,"first link's serial number = the Vorbis stream found by the header fetch");
    WITNESS_AT("open succeeded");
    ov_clear(&vf);
    CHECK(env_closes==1,"ov_clear closes the data source exactly once");
    CHECK(all_zero(&vf),"ov_clear zeroes the handle");
  }
  ov_clear(&vf);
  CHECK(env_closes==(r?0:1),"repeated ov_clear is harmless and never closes again");
}
