/* C12/C03 F-prevpage — backward page search terminates under persisting faults (recurrence check).
 * real code : _get_prev_page_serial / _get_prev_page (-DPLAIN) (lib/vorbisfile.c)
 * cut       : _seek_helper, _get_next_page -> contract stubs with a `persisting end-of-data` mode chosen nondeterministically
 *             once; after it is set the environment is deterministic (always OV_EOF).  The seek stub remembers the last
 *             search window and whether a page was delivered since.
 * assert    : never (persisting && same window requested again && nothing found in between): the caller's state would be
 *             identical at two loop heads under a deterministic environment = a lasso = non-termination.
 *             Result is a page offset or a documented error; offset, serial number and granule position returned by the serial-aware
 *             search describe the SAME page (multiplexed streams: pages of other streams may follow the preferred stream's last page).
 */
#include "vf_env.h"
#include "vorbisfile.c"
static int persisting_eof=0; static ogg_int64_t last_seek=-2; static int found_since=1; static int pbudget=5;
#define NPG 5
static ogg_int64_t pg_off[NPG], pg_gran[NPG]; static int pg_ser[NPG]; static int npg=0;   /* ghost: every page handed to the search */
static int _seek_helper(OggVorbis_File *vf,ogg_int64_t off){
  CHECK(!(persisting_eof && off==last_seek && !found_since),"backward page search makes progress under a persisting end-of-data (no lasso)");
  last_seek=off; found_since=0;
  if(vf->offset!=off){ if(ND_BOOL()) return OV_EREAD; vf->offset=off; } return 0; }
static ogg_int64_t _get_next_page(OggVorbis_File *vf,ogg_page *og,ogg_int64_t boundary){
  if(persisting_eof) return OV_EOF;
  ASSUME(pbudget>0); pbudget--;
  ogg_int64_t r=ND_long();
  if(r<0){ ASSUME(r==OV_FALSE||r==OV_EOF||r==OV_EREAD); if(r==OV_EOF && ND_BOOL()) persisting_eof=1; if(r==OV_FALSE && boundary>0) vf->offset+=boundary; return r; }
  ASSUME(boundary>0 && r>=vf->offset && r<vf->offset+boundary); ogg_int64_t len=ND_range(27,65307); vf->offset=r+len; found_since=1;
  env_fill_page(og); if(npg<NPG){ pg_off[npg]=r; pg_ser[npg]=ogg_page_serialno(og); pg_gran[npg]=ogg_page_granulepos(og); npg++; } return r; }
void harness(void){
  OggVorbis_File vf; memset(&vf,0,sizeof vf); vf.datasource=&vf; vf.seekable=1;
  vf.end=ND_range(0,3L<<16); vf.offset=ND_range(0,3L<<16); ASSUME(vf.offset<=vf.end);
  ogg_int64_t begin=ND_range(0,3L<<16); ASSUME(begin<=vf.end);
#ifdef PLAIN
  ogg_page og; memset(&og,0,sizeof og);
  ogg_int64_t r=_get_prev_page(&vf,begin,&og);
#else
  long list[2]={5,6}; int serial=5; ogg_int64_t gran=-1;   /* a multiplexed link: two logical streams, stream 5 preferred */
  ogg_int64_t r=_get_prev_page_serial(&vf,begin,list,2,&serial,&gran);
#endif
  CHECK(r>=0 || r==OV_EREAD || r==OV_EBADLINK || r==OV_EFAULT,"documented result");
#ifndef PLAIN
  if(r>=0){ /* the three results describe ONE page: offset, serial number and granule position of the same page that was seen */
    int ok=0, pref=0; for(int i=0;i<NPG;i++) if(i<npg){ if(pg_off[i]==r && pg_ser[i]==serial && pg_gran[i]==gran) ok=1; if(pg_off[i]==r && pg_ser[i]==5) pref=1; }
    CHECK(ok,"returned offset, serial number and granule position belong to the same page");
    if(pref && npg>=2 && pg_ser[npg-1]!=5) WITNESS_AT("preferred stream's page returned although another stream's page follows it"); }
#endif
  if(r>=0) WITNESS_AT("page found"); else if(persisting_eof) WITNESS_AT("error under persisting end of data");
}
