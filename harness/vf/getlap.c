/* C19 getlap — _ov_getlap collects the lapping data a lapped seek / crosslap fades out.
 * real code : _ov_getlap (lib/vorbisfile.c)
 * cut       : _fetch_and_process_packet -> contract (decodes 0..3 further samples, or reports end of link, or another error; never
 *             spans links: called with spanp==0); vorbis_synthesis_pcmout/read/lapout -> ghost decoder whose output is ONE linear
 *             sample stream S[ch][..] with a read cursor: pcmout exposes S from the cursor up to what has been decoded, read
 *             advances the cursor, lapout (contract proved by the lapout-* harnesses: returns pending + half of the current block,
 *             which is >= half a short block, as one contiguous run starting at the cursor; 0 only before the first block)
 * symbolic  : every sample (any non-NaN float), how much is decoded per fetch, when the link ends, whether anything was decoded
 * config    : -DCH channels, -DLAP lap size (half short block), -DT stream cells
 * assert    : memory-safe on lap buffers of exactly LAP floats per channel; the buffers end up holding exactly the NEXT LAP
 *             samples of the decoder's output (cell-by-cell): first what pcmout delivered, continued seamlessly by the
 *             lapout run from ITS start; all zero when nothing was ever decoded; reads never exceed what was pending;
 *             terminates within the event budget even when the fetch keeps failing with a non-EOF error... (stated bound: budget)
 */
#include "vf_env.h"
#ifndef CH
#define CH 2
#endif
#ifndef LAP
#define LAP 4
#endif
#ifndef RET0
#define RET0 0
#endif
#ifndef T
#define T 12
#endif
static float SU[CH][T]; static float *Sp[CH];   /* floats, never NaN: cells are compared with == (a bit-pattern view of the same cells through a second type made CBMC lose symbolic-length memcpy writes: spurious, rejected by the native replay) */ static int g_ret, g_cur, g_started, g_lapouts=0;
#define SF(i) (SU[i])
int vorbis_synthesis_pcmout(vorbis_dsp_state *v,float ***pcm){ if(!g_started) return 0; if(pcm){ for(int i=0;i<CH;i++) Sp[i]=SF(i)+g_ret; *pcm=Sp; } return g_cur-g_ret; }
int vorbis_synthesis_read(vorbis_dsp_state *v,int n){ CHECK(n>=0 && n<=g_cur-g_ret,"read within what is pending"); g_ret+=n; return 0; }
int vorbis_synthesis_lapout(vorbis_dsp_state *v,float ***pcm){ g_lapouts++; if(!g_started) return 0;
  int h=ND_irange(LAP,LAP+2); ASSUME(g_cur+h<=T); for(int i=0;i<CH;i++) Sp[i]=SF(i)+g_ret; *pcm=Sp; return (g_cur-g_ret)+h; }
int vorbis_synthesis_halfrate_p(vorbis_info *vi){ return 0; }
#if !VERIF_NATIVE
/* byte-loop models of memcpy/memset for this unit: CBMC's built-in models lose writes of SYMBOLIC length into float cells (spurious
   counterexamples, rejected by the native replay); every byte access here is bounds-checked against the real objects.  The native
   replay uses the C library's functions under AddressSanitizer. */
static void *verif_memcpy(void *d,const void *s,size_t n){ size_t k=n/sizeof(float); float *df=d; const float *sf=s; for(size_t i=0;i<k;i++) df[i]=sf[i];   /* whole cells (all callers pass float arrays) */
  unsigned char *dd=d; const unsigned char *ss=s; for(size_t i=k*sizeof(float);i<n;i++) dd[i]=ss[i]; return d; }                                      /* odd tail bytes */
static void *verif_memset(void *d,int c,size_t n){ CHECK(c==0,"only zero fills in this unit"); size_t k=n/sizeof(float); float *df=d; for(size_t i=0;i<k;i++) df[i]=0.f;
  unsigned char *dd=d; for(size_t i=k*sizeof(float);i<n;i++) dd[i]=0; return d; }
#define memcpy verif_memcpy
#define memset verif_memset
#endif
#include "vorbisfile.c"
#undef memcpy
#undef memset
static int g_spans_seen=0;
static int _fetch_and_process_packet(OggVorbis_File *vf,ogg_packet *op_in,int readp,int spanp){
  if(spanp) g_spans_seen=1;
  if(env_budget<=0) return OV_EOF; env_budget--;
  int k=ND_irange(0,3);
  if(k==0) return OV_EOF;
  if(k==1) return ND_BOOL()?OV_HOLE:OV_EBADLINK;
  g_started=1; int more=ND_irange(0,3); ASSUME(g_cur+more<=T-LAP-2); g_cur+=more; return 1; }
void harness(void){
  OggVorbis_File vf; memset(&vf,0,sizeof vf); static vorbis_info vi; vi.channels=CH; vf.vi=&vi; vf.links=1; vf.ready_state=INITSET;
  for(int i=0;i<CH;i++) for(int j=0;j<T;j++) { SU[i][j]=ND_float(); ASSUME(SU[i][j]==SU[i][j]); }
  g_started=ND_BOOL(); g_ret=RET0; g_cur=ND_irange(0,5); ASSUME(g_ret<=g_cur);   /* RET0: read cursor at entry (configuration) */ if(!g_started){ g_ret=0; g_cur=0; }
  int ret0=g_ret;
  static float lap0[LAP],lap1[LAP],lap2[LAP];   /* separate objects of exactly LAP floats: any overrun is an object-bounds violation */
  float *lappcm[3]={lap0,lap1,lap2}; float **lapu=lappcm; for(int i=0;i<CH;i++) for(int j=0;j<LAP;j++) lapu[i][j]=-12345.f;
  _ov_getlap(&vf,&vi,&vf.vd,lappcm,LAP);
  CHECK(!g_spans_seen,"lap data is never taken across a link boundary (fetch called with spanp==0)");
  if(g_started){
    for(int i=0;i<CH;i++) for(int j=0;j<LAP;j++) CHECK(lapu[i][j]==SU[i][ret0+j],"lap buffer = the next LAP samples of the decoder's output, in order (decoded part, then the lapout run from its start)");
    CHECK(g_ret>=ret0 && g_ret<=ret0+LAP,"no more than LAP samples consumed from the decoder");
    if(g_lapouts && g_ret>ret0) WITNESS_AT("partly decoded, completed from lapout");
    if(!g_lapouts) WITNESS_AT("fully decoded");
  }else{
    for(int i=0;i<CH;i++) for(int j=0;j<LAP;j++) CHECK(lapu[i][j]==0.f,"nothing ever decoded: lap data is silence");
    WITNESS_AT("nothing decoded");
  }
}
