from vlib.runner import Job
ENV=['M-frame(b): libogg framing as contract stubs (harness/vf/vf_env.h)','libvorbis decode API as contract stubs','callbacks: nondeterministic with fault injection']
def vf_jobs(tier):
    q=tier=='quick'; J=[]
    J.append(Job('F-open','vf/f_open.c',cuts={'vorbisfile.c':['_fetch_headers','_open_seekable2']},unwind=6,checks=['leak'],object_bits=12,
        witnesses=['open failed','open failed with a seekable source','open succeeded','opened with pre-read bytes'],models=ENV,tags=['C03','C12','C13','C10'],
        functions=['ov_open_callbacks','ov_test_callbacks','ov_test_open','_ov_open1','_ov_open2','ov_clear'],bounds='one open attempt, every failure point/code of the two cut stages, seekable or streaming',weight=2))
    J.append(Job('F-io','vf/f_io.c',defs=['-DENV_BUDGET=4'],unwind=10,unwindset=[('env_fill_page',None,28)],object_bits=12,
        witnesses=['data read','seek failed','seek ok','page found','end of data'],models=ENV,tags=['C03','C10','C12'],
        functions=['_get_data','_seek_helper','_get_next_page'],bounds='<=4 framing/read events per call; offsets < 2^31; any read sizes 0..2048, any errno, seek may fail'))
    nl=2 if q else 3
    for hs in (0,1):
        J.append(Job('F-fetch-hs%d'%hs,'vf/f_fetch.c',defs=['-DENV_BUDGET=%d'%(4 if q else 4),'-DNL=%d'%nl,'-DHS=%d'%hs],cuts={'vorbisfile.c':['_get_next_page','_fetch_headers']},unwind=4+3,unwindset=[('env_fill_page',None,28)],object_bits=12,
            witnesses=['link changed','position set from a granule position','packet processed','streaming handle']+(['position set at half rate with samples pending'] if hs else []),models=ENV,tags=(['C07','C08','C20'] if hs else ['C03','C07','C09','C12','C10'])+([] if q else ['C03','C09','C08']),
            functions=['_fetch_and_process_packet','_make_decode_ready','_decode_clear'],bounds='<=%d links, <=%d framing events per call; arbitrary V_vf state; half-rate setting %d'%(nl,4,hs),weight=5,mem_est=11))
    J.append(Job('F-halfrate','vf/f_halfrate.c',defs=['-DNL=3'],cuts={'vorbisfile.c':['ov_pcm_seek']},unwind=5,object_bits=12,
        witnesses=['refused','accepted','re-seek','refusal left the running decoder alone'],models=ENV,tags=['C20','C03'],functions=['ov_halfrate','ov_halfrate_p'],bounds='<=3 links, any subset refusing, any prior state'))
    for ch,lap in ([(1,3)] if q else [(1,3),(2,4),(1,6)]):
        J.append(Job('getlap-c%d-n%d'%(ch,lap),'vf/getlap.c',defs=['-DCH=%d'%ch,'-DLAP=%d'%lap,'-DT=%d'%(lap+10),'-DENV_BUDGET=%d'%(5 if q else 6)],cuts={'vorbisfile.c':['_fetch_and_process_packet']},unwind=max(lap+11,12),unwindset=[('verif_memcpy',None,lap+5),('verif_memset',None,lap+5)],object_bits=12,
            witnesses=['partly decoded, completed from lapout','fully decoded','nothing decoded'],models=ENV+['ghost decoder: one linear output stream with a read cursor; lapout contract from lapout-* (C19)'],tags=['C19','C03'],
            functions=['_ov_getlap'],bounds='%d channel(s), lap size %d, <=%d fetches of <=3 samples each'%(ch,lap,5 if q else 6),weight=2))
    for ds in (0,1):
        J.append(Job('lapseek-%s'%('time' if ds else 'pcm'),'vf/seek_lap.c',defs=(['-DDSEEK'] if ds else []),cuts={'vorbisfile.c':['_ov_initset','_ov_initprime','_ov_getlap','_ov_splice']},unwind=5,object_bits=12,
            witnesses=['rejected','seek failed','seek crossed into the other link'],models=ENV,tags=['C19','C03'],functions=['_ov_d_seek_lap' if ds else '_ov_64_seek_lap','ov_info','ov_halfrate_p'],
            bounds='2 links, short blocks 64..4096, channels 1..3, every error return of every step'))
    J.append(Job('F-read-float','vf/read_float.c',cuts={'vorbisfile.c':['_fetch_and_process_packet']},unwind=5,object_bits=12,witnesses=['not open','request smaller than the channel count','returned after fetching','no samples'],models=ENV+['contract of _fetch_and_process_packet (F-fetch)'],tags=['C10','C07'],
        functions=['ov_read_float'],bounds='<=3 fetches per call, pending samples 0..4096, requested length any int >= 1, channels 1..255'))
    for pg in ([] if q else [0,1]):   # quick tier: no verdict inside 900 s on a loaded machine (symbolic double compare/subtract/multiply)
        J.append(Job('time-seek%s'%('-page' if pg else ''),'vf/time_seek.c',defs=(['-DPAGE'] if pg else []),cuts={'vorbisfile.c':['ov_pcm_seek_page' if pg else 'ov_pcm_seek']},unwind=5,object_bits=12,solver='kissat',
            witnesses=['out of range','second link','third link'],models=ENV+['sample seek cut to a recording stub (pcm-exact / page-bisect)'],tags=['C08'],functions=['ov_time_seek_page' if pg else 'ov_time_seek','ov_time_total'],
            bounds='3 links with a concrete table (8000052 samples @ 8 kHz, 60000 @ 192 kHz, 44100 @ 44.1 kHz); the requested time is any double'))
    J.append(Job('splice','vf/splice.c',defs=['-DCAP=%d'%(3 if q else 4)],unwind=6,object_bits=12,witnesses=['old block shorter','new block shorter','channels fade in from silence'],models=[],tags=['C19','C03'],
        functions=['_ov_splice'],bounds='half blocks of 1..%d samples (scaled), 1..3 channels on either side (symbolic), tagged samples and window coefficients'%(3 if q else 4)))
    J.append(Job('F-crosslap','vf/f_crosslap.c',cuts={'vorbisfile.c':['_ov_initset','_ov_initprime','_ov_getlap','_ov_splice']},unwind=5,object_bits=12,
        witnesses=['rejected','priming failed','spliced with differing half-rate flags'],models=ENV,tags=['C19','C03'],functions=['ov_crosslap','ov_info','ov_halfrate_p'],bounds='two single-link handles, short blocks 64..4096, channels 1..3'))
    for npg in ([2] if q else [2,3]):
        J.append(Job('page-bisect-%d'%npg,'vf/page_bisect.c',defs=['-DNP=%d'%npg],cuts={'vorbisfile.c':['_seek_helper','_get_next_page','_get_prev_page']},unwind=12,unwindset=[('harness',None,npg+1),('_get_next_page',None,npg+1)],object_bits=12,
            witnesses=['cross-link seek','middle page chosen' if npg>2 else 'cross-link seek','first-page special case','same link, decode machine dumped before (state after a failed seek)'],models=ENV+['abstract page table (M-frame(c))'],tags=['C08','C07','C03','C09','C12'],
            functions=['ov_pcm_seek_page','ov_pcm_total','_decode_clear'],bounds='2 links, %d pages in the target link, file < 64 KiB, <=10 page fetches'%npg,weight=4))
    J.append(Job('page-bisect-faults','vf/page_bisect.c',defs=['-DNP=2','-DFAULTS'],cuts={'vorbisfile.c':['_seek_helper','_get_next_page','_get_prev_page']},unwind=12,unwindset=[('harness',None,3),('_get_next_page',None,3)],object_bits=12,
        witnesses=['page seek failed on an injected fault'],models=ENV+['abstract page table (M-frame(c))','read/seek faults injected at every call of the two I/O leaves'],tags=['C12','C03'],
        functions=['ov_pcm_seek_page','_decode_clear'],bounds='as page-bisect-2 plus an arbitrary subset of the I/O calls failing with OV_EREAD',weight=3))
    J.append(Job('pcm-exact','vf/pcm_seek.c',defs=['-DNPK=%d'%(3 if q else 5),'-DENV_BUDGET=3'],cuts={'vorbisfile.c':['ov_pcm_seek_page','_get_next_page','_fetch_and_process_packet']},unwind=(3 if q else 5)+4,object_bits=12,
        witnesses=['packets discarded in the second link','samples discarded up to the target','seek failed','recorded position already equals the target'],models=ENV+['contract of ov_pcm_seek_page (page-bisect)'],tags=['C08','C07','C03','C20','C19'],
        functions=['ov_pcm_seek','_make_decode_ready'],bounds='2 links, <=%d queued packets without granule positions, <=3 further packets fetched, block sizes 64..8192 per link'%(3 if q else 5),weight=3))
    for m in (0,1):
        J.append(Job('bisect-step-m%d'%m,'vf/bisect_step.c',defs=['-DM=%d'%m],cuts={'vorbisfile.c':['_bisect_forward_serialno','_seek_helper','_get_next_page','_get_prev_page_serial','_fetch_headers','_initial_pcmoffset']},
            unwind=10,object_bits=12,checks=['leak'],witnesses=['link recorded','more links follow','deeper activation failed','header fetch failed','i/o failed during bisection','next link has no audio pages'],models=ENV+['abstract file: current link + start of the next (M-frame(c)); contract of the recursive activation'],
            tags=['C09','C10','C13','C03'],functions=['_bisect_forward_serialno','_lookup_serialno','_lookup_page_serialno'],bounds='one activation at link index %d, links of 200..40000 bytes (linear branch of the bisection), <=8 page fetches; any number of further links (contract)'%m,weight=2))
    J.append(Job('bisect-step-pcmoff','vf/bisect_step.c',defs=['-DM=0','-DREAL_PCMOFF','-DENV_BUDGET=6'],cuts={'vorbisfile.c':['_bisect_forward_serialno','_seek_helper','_get_next_page','_get_prev_page_serial','_fetch_headers']},
        unwind=10,unwindset=[('env_fill_page',None,28)],object_bits=12,checks=['leak'],witnesses=['link recorded','deeper activation failed'],models=ENV+['abstract file; _initial_pcmoffset REAL (page/packet stubs of vf_env.h)'],tags=['C09','C03'],
        functions=['_bisect_forward_serialno','_initial_pcmoffset'],bounds='one activation at link index 0 with the real initial-offset computation; <=8 page fetches, <=6 packet events',weight=2))
    for kl in ([2] if q else [2]):   # 3 links: no verdict in 3600 s / 14 GB (measured)
        J.append(Job('chain-table-%d'%kl,'vf/chain_table.c',defs=['-DKL=%d'%kl,'-DFETCHES=%d'%(10 if q else 12)],cuts={'vorbisfile.c':['_seek_helper','_get_next_page','_get_prev_page_serial','_fetch_headers','_initial_pcmoffset','ov_raw_seek']},
            unwind=(12 if q else 14),object_bits=12,witnesses=['chain opened','serial number with the top bit set'],models=ENV+['abstract chained file (M-frame(c))'],tags=['C09','C03','C13'],checks=[],
            functions=['_open_seekable2','_bisect_forward_serialno','ov_pcm_total'],bounds='%d links of 200..40000 bytes, <=%d page fetches, non-multiplexed chain'%(kl,10 if kl==2 else 16),weight=4,flags=['--depth','100000'] if False else []))
    J.append(Job('raw-seek','vf/raw_seek.c',defs=['-DNPK=%d'%(3 if q else 4)],cuts={'vorbisfile.c':['_seek_helper','_get_next_page']},unwind=(3 if q else 4)*2+6,object_bits=12,
        witnesses=['not seekable','out of range','seek failed','end of file','last page, not first','first page is also the last','ordinary page'],models=ENV+['abstract single-page source, two ghost stream queues'],tags=['C07','C10','C03','C12','C09','C13'],
        functions=['ov_raw_seek','_decode_clear','ov_pcm_total'],bounds='2 links, the page found holds <=%d packets, no further page'%(3 if q else 4),weight=3))
    for nm,d,wit in (('F-headers',[],['failed','failed after some pages','headers fetched']),('F-open1',['-DVIA_OPEN'],['open1 failed','open1 ok'])):
        J.append(Job(nm,'vf/f_headers.c',defs=d+['-DENV_BUDGET=%d'%(6 if q else 8)],cuts={'vorbisfile.c':['_get_next_page']},unwind=(6 if q else 8)+3,unwindset=[('env_fill_page',None,28),('ogg_page_granulepos',None,10),('harness',None,64)],checks=['leak'],object_bits=12,
            witnesses=wit,models=ENV,tags=['C03','C12','C13'],functions=['_fetch_headers','_add_serialno','_lookup_serialno']+(['_ov_open1','ov_clear'] if d else []),
            bounds='<=%d page/packet events; vi/vc with arbitrary prior contents'%(6 if q else 8),weight=4,mem_est=4))
    for w in (0,1):
        J.append(Job('F-info-%s'%('int' if w==0 else 'time'),'vf/f_info.c',defs=['-DWHICH=%d'%w,'-DNL=3'],unwind=6,object_bits=12,witnesses=['query refused']+(['chain totals'] if w==0 else ['time tell with an unknown position']),models=ENV,tags=['C03','C09','C12'],
            functions=(['ov_streams','ov_seekable','ov_serialnumber','ov_raw_total','ov_pcm_total','ov_info','ov_comment','ov_pcm_tell','ov_raw_tell','ov_bitrate'] if w==0 else ['ov_time_total','ov_time_tell']),
            bounds='<=3 links with exact-size tables, link argument -2..4, recorded position -1..2^34, any ready state',weight=2))
    J.append(Job('chain-table-2-hdrfail','vf/chain_table.c',defs=['-DKL=2','-DFETCHES=10','-DHDRFAIL'],cuts={'vorbisfile.c':['_seek_helper','_get_next_page','_get_prev_page_serial','_fetch_headers','_initial_pcmoffset','ov_raw_seek']},
        unwind=12,object_bits=12,witnesses=['open failed on a later link','chain opened'],models=ENV+['abstract chained file (M-frame(c))','header fetch of a later link may fail with any documented code'],tags=['C12','C09','C03'],
        functions=['_open_seekable2','_bisect_forward_serialno'],bounds='2 links, header fetch of the second link fails or succeeds',weight=4))
    J.append(Job('F-initpcm','vf/f_initpcm.c',defs=['-DNPG=3','-DENV_BUDGET=6'],cuts={'vorbisfile.c':['_get_next_page']},unwind=8,unwindset=[('env_fill_page',None,28),('ogg_page_granulepos',None,10)],object_bits=12,
        witnesses=['positive offset after counted packets','clamped to zero','no positioned page'],models=ENV+['ghost sample counter per the Vorbis I block overlap rule'],tags=['C04','C09','C03'],
        functions=['_initial_pcmoffset'],bounds='<=3 pages, <=6 packet events, block sizes 64/128/2048 or non-audio, any header bytes'))
    for nm,d in (('F-prevserial',[]),('F-prevpage',['-DPLAIN'])):
        J.append(Job(nm,'vf/f_prevpage.c',defs=d,cuts={'vorbisfile.c':['_seek_helper','_get_next_page']},unwind=10,unwindset=[('env_fill_page',None,28)],object_bits=12,
            witnesses=['page found','error under persisting end of data']+([] if d else ["preferred stream's page returned although another stream's page follows it"]),models=ENV+['recurrence (lasso) check in the _seek_helper contract'],tags=['C03','C12','C09','C04','C07'],
            functions=['_get_prev_page_serial' if not d else '_get_prev_page'],bounds='file < 192 KiB (<=3 search chunks), <=5 page fetches before the fault persists'))
    return J
