from vlib.runner import Job
ENV=['M-frame(b): libogg framing as contract stubs (harness/vf/vf_env.h)','libvorbis decode API as contract stubs','callbacks: nondeterministic with fault injection']
def vf_jobs(tier):
    q=tier=='quick'; J=[]
    J.append(Job('F-open','vf/f_open.c',cuts={'vorbisfile.c':['_fetch_headers','_open_seekable2']},unwind=4,checks=['leak'],object_bits=12,
        witnesses=['open failed','open failed with a seekable source','open succeeded'],models=ENV,tags=['C03','C12','C13'],
        functions=['ov_open_callbacks','ov_test_callbacks','ov_test_open','_ov_open1','_ov_open2','ov_clear'],bounds='one open attempt, every failure point/code of the two cut stages, seekable or streaming',weight=2))
    J.append(Job('F-io','vf/f_io.c',defs=['-DENV_BUDGET=4'],unwind=10,unwindset=[('env_fill_page',None,28)],object_bits=12,
        witnesses=['data read','seek failed','seek ok','page found','end of data'],models=ENV,tags=['C03','C10','C12'],
        functions=['_get_data','_seek_helper','_get_next_page'],bounds='<=4 framing/read events per call; offsets < 2^31; any read sizes 0..2048, any errno, seek may fail'))
    for nm,d in (('F-prevserial',[]),('F-prevpage',['-DPLAIN'])):
        J.append(Job(nm,'vf/f_prevpage.c',defs=d,cuts={'vorbisfile.c':['_seek_helper','_get_next_page']},unwind=10,unwindset=[('env_fill_page',None,28)],object_bits=12,
            witnesses=['page found','error under persisting end of data'],models=ENV+['recurrence (lasso) check in the _seek_helper contract'],tags=['C03','C12'],
            functions=['_get_prev_page_serial' if not d else '_get_prev_page'],bounds='file < 192 KiB (<=3 search chunks), <=5 page fetches before the fault persists'))
    return J
