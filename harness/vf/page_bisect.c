/* C08/C07 page-bisect — ov_pcm_seek_page over an abstract page table (2-link handle, target link has NP pages).
 * real code : ov_pcm_seek_page, ov_pcm_total, _decode_clear (lib/vorbisfile.c)
 * cut       : _seek_helper, _get_next_page, _get_prev_page -> oracles over the abstract file; libogg stream layer -> ghost queue
 * symbolic  : 2 links with symbolic boundaries; the target link's NP page offsets (increasing, lengths 27..4096) and granule
 *             positions (increasing by 1..4096), initial offset p0; the link the decoder is currently in; ready state; target pos
 * assert    : an in-range page seek on an intact link succeeds; lands at or before the target and exactly on the granule of
 *             the last page strictly before it (or the link start); afterwards current_link/current_serialno and the stream
 *             state's serial number are the TARGET link's, the chosen page is what was submitted to the stream state, and the
 *             lapping state was reset (restart on the same link, full teardown on a link change).
 * bound     : file < 64 KiB so the interpolation branch of the bisection is dead (outside this job).
 */
#include <ogg/ogg.h>
#ifndef NP
#define NP 3
#endif
static ogg_int64_t pg_off[NP+1]; static ogg_int64_t pg_gran[NP]; static int fetches=10, cur=-1; static int tl; static long g_ser[2];
static int g_restarts=0, g_reset_serial=-99999, g_queued=-1, g_pagein_after_reset=0;
#define ogg_page_serialno env_ps_unused
#define ogg_page_granulepos env_pg_unused
#define ogg_page_continued env_pc_unused
#define ogg_stream_reset_serialno env_rs_unused
#define ogg_stream_pagein env_pi_unused
#define ogg_stream_packetpeek env_pp_unused
#define ogg_stream_packetout env_po_unused
#define vorbis_synthesis_restart env_restart_unused
#include "vf_env.h"
#undef ogg_page_serialno
#undef ogg_page_granulepos
#undef ogg_page_continued
#undef ogg_stream_reset_serialno
#undef ogg_stream_pagein
#undef ogg_stream_packetpeek
#undef ogg_stream_packetout
#undef vorbis_synthesis_restart
int ogg_page_serialno(const ogg_page *og){ return (int)g_ser[tl]; }
ogg_int64_t ogg_page_granulepos(const ogg_page *og){ CHECK(cur>=0&&cur<NP,"a page is held"); return pg_gran[cur]; }
int ogg_page_continued(const ogg_page *og){ return 0; }
int ogg_stream_reset_serialno(ogg_stream_state *os,int s){ os->serialno=s; g_reset_serial=s; g_queued=-1; g_pagein_after_reset=0; return 0; }
int ogg_stream_pagein(ogg_stream_state *os,ogg_page *og){ g_queued=cur; g_pagein_after_reset++; return 0; }
int ogg_stream_packetpeek(ogg_stream_state *os,ogg_packet *op){ if(g_queued<0)return 0; if(op){ memset(op,0,sizeof *op); op->granulepos=pg_gran[g_queued]; } return 1; }
int ogg_stream_packetout(ogg_stream_state *os,ogg_packet *op){ int r=ogg_stream_packetpeek(os,op); g_queued=-1; return r; }
int vorbis_synthesis_restart(vorbis_dsp_state *v){ g_restarts++; return 0; }
#include "vorbisfile.c"
static int g_fault=0;   /* ghost: an I/O fault was injected (-DFAULTS) */
static ogg_int64_t g_last_seek=-5; static int g_found_since=1;   /* ghost for the recurrence (lasso) check */
static int _seek_helper(OggVorbis_File *vf,ogg_int64_t off){ CHECK(off>=0&&off<=vf->end,"seek target inside the file");
  CHECK(!(off==g_last_seek && !g_found_since),"the page search makes progress: the same offset is never searched twice with no page found in between (the environment is deterministic, so that would repeat forever)");
  g_last_seek=off; g_found_since=0;
#ifdef FAULTS
  if(ND_BOOL()){ g_fault=1; return OV_EREAD; }
#endif
  vf->offset=off; return 0; }
static ogg_int64_t _get_next_page(OggVorbis_File *vf,ogg_page *og,ogg_int64_t boundary){
  ASSUME(fetches>0); fetches--;
#ifdef FAULTS
  if(ND_BOOL()){ g_fault=1; return OV_EREAD; }
#endif
  if(boundary>0)boundary+=vf->offset;
  int i; for(i=0;i<NP;i++) if(pg_off[i]>=vf->offset) break;
  if(i==NP) return OV_EOF;
  if(boundary>0 && pg_off[i]>=boundary){ vf->offset=boundary; return OV_FALSE; }
  if(boundary==0) return OV_FALSE;
  g_found_since=1; cur=i; og->header=env_hdr; og->header_len=27; og->body=env_body; og->body_len=0;
  vf->offset=pg_off[i+1]; return pg_off[i]; }
static ogg_int64_t _get_prev_page(OggVorbis_File *vf,ogg_int64_t begin,ogg_page *og){ ASSUME(0); return 0; }  /* needs a page without a completed packet: not in this table */
void harness(void){
  OggVorbis_File vf; memset(&vf,0,sizeof vf); int ds=1; vf.datasource=&ds; vf.callbacks=env_cb;
  ogg_int64_t offs[3],doffs[2],pcml[4]; long sers[2]; static vorbis_info vi[2];
  vf.links=2; vf.seekable=1; vf.offsets=offs; vf.dataoffsets=doffs; vf.pcmlengths=pcml; vf.serialnos=sers; vf.vi=vi;
  tl=ND_irange(0,1); sers[0]=ND_int(); sers[1]=ND_int(); ASSUME(sers[0]!=sers[1]); g_ser[0]=sers[0]; g_ser[1]=sers[1];
  /* layout: [hdr0 | data0 | hdr1 | data1]; only the target link's pages are modelled */
  ogg_int64_t h=ND_range(1,4095), gap=ND_range(27,4096), oth=ND_range(27,4096);
  ogg_int64_t base= tl==0 ? 0 : (h+oth);
  offs[tl]=base; doffs[tl]=base+h; pg_off[0]=doffs[tl];
  for(int i=0;i<NP;i++){ ogg_int64_t len=ND_range(27,4096); pg_off[i+1]=pg_off[i]+len; }
  ogg_int64_t tailgap=ND_range(0,4096);   /* bytes after the link's last page that belong to no page (garbage / padding): the search must terminate there too */
  offs[tl+1]=pg_off[NP]+tailgap;
  if(tl==0){ doffs[1]=offs[1]+gap; offs[2]=doffs[1]+oth; } else { offs[0]=0; doffs[0]=h; }
  vf.end=offs[2]; vf.offset=ND_range(0,1L<<16); ASSUME(vf.offset<=vf.end);
  ogg_int64_t p0=ND_range(0,1023); pcml[2*tl]=p0;
  ogg_int64_t g=p0; for(int i=0;i<NP;i++){ g+=ND_range(1,4096); pg_gran[i]=g; }
  pcml[2*tl+1]=pg_gran[NP-1]-p0; pcml[2*(1-tl)]=ND_range(0,1023); pcml[2*(1-tl)+1]=ND_range(0,1L<<20);
  ogg_int64_t before= tl==1 ? pcml[1] : 0;
  vf.ready_state=ND_irange(OPENED,INITSET); vf.current_link=ND_irange(0,1); vf.current_serialno=sers[vf.current_link];
  if(vf.ready_state==INITSET){ env_dsp_live=1; env_blk_live=1; } int link0=vf.current_link, rs0=vf.ready_state;
  ogg_int64_t rel=ND_range(0,1L<<22); ASSUME(rel<=pcml[2*tl+1]); ASSUME(tl==1 || rel<pcml[1] || pcml[3]==0 || 1);
  ogg_int64_t pos=before+rel;
  ASSUME(!(tl==0 && rel==pcml[1] && pcml[3]>=0 && rel==pcml[1] ) || 1);
  vf.pcm_offset=ND_range(-1,1L<<23);   /* the recorded position is arbitrary (may equal the target; it lags the decoder after _ov_getlap) */
  int r=ov_pcm_seek_page(&vf,pos);
  /* the link search picks the LAST link containing pos: pos==end of link 0 belongs to link 1 */
  int in_target = (tl==1) || (rel<pcml[1]);
  if(g_fault){
    /* C12: a read/seek fault during the search surfaces as a negative code and leaves the handle in the known "dumped" state */
    if(r!=0){ CHECK(r<0 && (r==OV_EREAD||r==OV_EBADLINK||r==OV_EFAULT||r==OV_EOF||r==OV_FALSE),"a failed page seek returns a negative code");
      CHECK(vf.pcm_offset==-1 && vf.ready_state==OPENED && env_dsp_live==0,"failed page seek: decode machine dumped, position unknown"); WITNESS_AT("page seek failed on an injected fault"); }
    return; }
  if(in_target){
    CHECK(r==0,"an in-range page seek on an intact link succeeds");
    if(r==0){
      CHECK(vf.pcm_offset<=pos,"lands at or before the target");
      ogg_int64_t target=rel+p0; int best=-1; for(int i=0;i<NP;i++) if(pg_gran[i]<target) best=i;
      ogg_int64_t expect = before + (best<0 ? 0 : pg_gran[best]-p0);
      CHECK(vf.pcm_offset==expect,"lands on the last page boundary strictly before the target (or the link start)");
      CHECK(vf.current_link==tl && vf.current_serialno==sers[tl],"handle now in the target link");
      CHECK(g_reset_serial==(int)sers[tl],"stream state reset to the TARGET link's serial number");
      CHECK(g_pagein_after_reset==1 ,"exactly the chosen page is submitted after the reset");
      CHECK(vf.ready_state>=STREAMSET,"after a successful page seek the handle is set up for the target link (decoding can start), whatever state a failed earlier call left");
      if(link0==tl && rs0==OPENED) WITNESS_AT("same link, decode machine dumped before (state after a failed seek)");
      if(link0==tl && rs0==INITSET) CHECK(g_restarts>=1 && vf.ready_state==INITSET,"same link: lapping state restarted");
      if(link0!=tl){ CHECK(vf.ready_state==STREAMSET && env_dsp_live==0,"other link: decode machine torn down"); WITNESS_AT("cross-link seek"); }
      if(best==1) WITNESS_AT("middle page chosen");
      if(best<0) WITNESS_AT("first-page special case");
    }
  }
}
