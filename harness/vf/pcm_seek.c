/* C08/C07 pcm-exact — ov_pcm_seek after the page seek: packet discarding and exact landing.
 * real code : ov_pcm_seek, _make_decode_ready (lib/vorbisfile.c)
 * cut       : ov_pcm_seek_page -> contract (C08 page-bisect: success leaves pcm_offset <= pos on a page boundary inside the
 *             link containing pos, decoder not primed, packets of that page queued); _get_next_page, _fetch_and_process_packet ->
 *             abstract packet source; libvorbis decode API -> ghost stubs that CHECK which link's vorbis_info they are given
 * symbolic  : 2 links with independent short/long block sizes (64..8192) and half-rate flag; target position; the page-seek
 *             landing point; up to NPK queued packets with arbitrary short/long flags (no granule positions: mid-page packets)
 * assert    : every block-size query uses the CURRENT link's info (packet sizes and the long-block margin alike);
 *             success => position == (pos>>hs)<<hs exactly, or the stream's total when it ended first; never beyond pos;
 *             success => the decoder was repositioned (no shortcut on a recorded position equal to the target: after _ov_getlap the
 *             recorded position lags the decoder).
 */
#include <ogg/ogg.h>
#ifndef NPK
#define NPK 4
#endif
#define VF_CUSTOM_BLOCKSIZE
#define ogg_stream_packetpeek env_pp_unused
#define ogg_stream_packetout env_po_unused
#define ogg_stream_pagein env_pi_unused
#include "vf_env.h"
#undef ogg_stream_packetpeek
#undef ogg_stream_packetout
#undef ogg_stream_pagein
static vorbis_info g_vi[2]; static long g_bs[2][2]; static int g_hs; static OggVorbis_File *g_vf;
static int g_flags[NPK]; static int g_head=0, g_n=0; static int g_pending=0; static int g_wrong_vi=0;
int ogg_stream_packetpeek(ogg_stream_state *os,ogg_packet *op){ if(g_head>=g_n) return 0; if(op){ memset(op,0,sizeof *op); op->packet=env_pkt; op->bytes=1; op->granulepos=-1; op->packetno=g_head; } return 1; }
int ogg_stream_packetout(ogg_stream_state *os,ogg_packet *op){ int r=ogg_stream_packetpeek(os,op); if(r>0) g_head++; return r; }
int ogg_stream_pagein(ogg_stream_state *os,ogg_page *og){ return 0; }
long vorbis_packet_blocksize(vorbis_info *vi,ogg_packet *op){ CHECK(vi==g_vi+g_vf->current_link,"packet block size computed with the CURRENT link's info"); return g_bs[g_vf->current_link][g_flags[g_head<NPK?g_head:NPK-1]]; }
int vorbis_info_blocksize(vorbis_info *vi,int zo){ CHECK(vi==g_vi+g_vf->current_link,"long-block margin taken from the CURRENT link's info"); long i=vi-g_vi; return (int)g_bs[i][zo]; }
int vorbis_synthesis_halfrate_p(vorbis_info *vi){ return g_hs; }
int vorbis_synthesis_trackonly(vorbis_block *vb,ogg_packet *op){ return 0; }
int vorbis_synthesis_blockin(vorbis_dsp_state *v,vorbis_block *vb){ return 0; }
int vorbis_synthesis_pcmout(vorbis_dsp_state *v,float ***pcm){ return g_pending; }
int vorbis_synthesis_read(vorbis_dsp_state *v,int n){ CHECK(n>=0 && n<=g_pending,"read within what is pending"); g_pending-=n; return 0; }
#include "vorbisfile.c"
static ogg_int64_t g_land; static int g_tl; static int g_paged=0;   /* ghost: the decode machine was repositioned by a page seek */
int ov_pcm_seek_page(OggVorbis_File *vf,ogg_int64_t pos){
  g_paged=1;
  if(ND_BOOL()){ vf->pcm_offset=-1; return OV_EREAD; }
  vf->pcm_offset=g_land; vf->current_link=g_tl; vf->ready_state=STREAMSET; env_dsp_live=0; env_blk_live=0; g_head=0; return 0; }
static ogg_int64_t _get_next_page(OggVorbis_File *vf,ogg_page *og,ogg_int64_t boundary){ return OV_EOF; }     /* bound: the packets needed are on the page(s) already queued */
static int g_total_hit=0;
static int _fetch_and_process_packet(OggVorbis_File *vf,ogg_packet *op_in,int readp,int spanp){
  if(env_budget<=0 || ND_BOOL()){ g_total_hit=1; return OV_EOF; }   /* the stream ends before the target (not an intact stream) */
  env_budget--;
  g_pending=ND_irange(1,4096); return 1; }
void harness(void){
  OggVorbis_File vf; memset(&vf,0,sizeof vf); g_vf=&vf; int ds=1; vf.datasource=&ds; vf.callbacks=env_cb; vf.seekable=1; vf.links=2; vf.vi=g_vi;
  ogg_int64_t pcml[4]; vf.pcmlengths=pcml; long sers[2]={1,2}; vf.serialnos=sers; ogg_int64_t offs[3]={0,100,200},doffs[2]={10,110}; vf.offsets=offs; vf.dataoffsets=doffs;
  for(int l=0;l<2;l++){ int e0=ND_irange(6,13),e1=ND_irange(6,13); ASSUME(e0<=e1); g_bs[l][0]=1L<<e0; g_bs[l][1]=1L<<e1; pcml[2*l]=0; pcml[2*l+1]=ND_range(0,1L<<30); }
  g_hs=ND_irange(0,1); ASSUME(!g_hs || (g_bs[0][0]>64 && g_bs[1][0]>64));
  g_tl=ND_irange(0,1); ogg_int64_t total=pcml[1]+pcml[3];
  ogg_int64_t pos=ND_range(0,1L<<31); ASSUME(pos<=total);
  ogg_int64_t lo= g_tl? pcml[1]:0; ASSUME(pos>=lo && (g_tl==1 || pos<pcml[1] || pcml[3]==0));
  g_land=ND_range(0,1L<<31); ASSUME(g_land>=lo && g_land<=pos);
  ASSUME(!g_hs || ((g_land&1)==0 && (pcml[1]&1)==0));   /* bound: at half rate page positions and link lengths are even (odd ones make every later position odd: observation D17, DESIGN section 4) */
  g_n=ND_irange(0,NPK); for(int i=0;i<NPK;i++) g_flags[i]=ND_irange(0,1);
  vf.ready_state=ND_irange(OPENED,INITSET); vf.current_link=ND_irange(0,1);
  /* the position recorded in the pre-state is arbitrary, in particular it may EQUAL the target: it says nothing about where the
     decoder stands (_ov_getlap takes samples out of the decoder without updating it before the lapped seeks call this function) */
  vf.pcm_offset=ND_range(-1,1L<<31); if(vf.pcm_offset==pos && vf.ready_state==INITSET) WITNESS_AT("recorded position already equals the target");
  int r=ov_pcm_seek(&vf,pos);
  if(r==0){
    CHECK(g_paged,"a successful sample seek repositions the decode machine through the page seek, whatever position the handle recorded before");
    ogg_int64_t want=(pos>>g_hs)<<g_hs;
    CHECK(vf.pcm_offset<=pos || g_total_hit,"never lands beyond the requested position");
    CHECK(vf.pcm_offset==want || (g_total_hit && vf.pcm_offset==total),"lands exactly on the requested sample (even position at half rate), or at the total when the stream ends first");
    if(g_tl==1 && g_head>=2) WITNESS_AT("packets discarded in the second link");
    if(vf.pcm_offset==want && want>g_land) WITNESS_AT("samples discarded up to the target");
  } else WITNESS_AT("seek failed");
}
