/* C07/C10/C03 pos-rawseek — ov_raw_seek: two-stream scan, position bookkeeping, which packets stay queued for decoding.
 * real code : ov_raw_seek, _decode_clear, ov_pcm_total (lib/vorbisfile.c)
 * cut       : _seek_helper, _get_next_page -> abstract page source: the seek lands on ONE page of link TL holding NPK packets
 *             (block sizes symbolic, some possibly non-audio, granule position on the last one), which may be the link's first
 *             data page and/or its end-of-stream page; no further page follows within the bound
 *             libogg stream layer -> two ghost queues (decode queue vf->os and the local scan queue)
 * assert    : argument/ready-state rejection; success => the local scan state is released, the handle is in the page's link,
 *             position = (granule - first offset of the link, >=0) + lengths of earlier links - samples of the scanned packets
 *             (i.e. the position of the first sample the next decode call returns);
 *             the decode queue still holds every audio packet of the page unless the page is a link's LAST page that is not
 *             also its FIRST data page (then they are dropped on purpose: short-granule rule); non-audio packets are dropped.
 */
#include <ogg/ogg.h>
#ifndef NPK
#define NPK 3
#endif
#define VF_CUSTOM_BLOCKSIZE
#define ogg_stream_packetpeek env_pp_unused
#define ogg_stream_packetout env_po_unused
#define ogg_stream_pagein env_pi_unused
#define ogg_stream_init env_si_unused
#define ogg_stream_clear env_sc_unused
#define ogg_stream_reset_serialno env_rs_unused
#define ogg_page_serialno env_ps_unused
#define ogg_page_bos env_pb_unused
#define ogg_page_eos env_pe_unused
#include "vf_env.h"
#undef ogg_stream_packetpeek
#undef ogg_stream_packetout
#undef ogg_stream_pagein
#undef ogg_stream_init
#undef ogg_stream_clear
#undef ogg_stream_reset_serialno
#undef ogg_page_serialno
#undef ogg_page_bos
#undef ogg_page_eos
static OggVorbis_File *g_vf; static long g_bsz[NPK]; static ogg_int64_t g_gp; static int g_n, g_eos, g_tl; static long g_ser[2];
static int g_head_os=0, g_head_w=0, g_fed_os=0, g_fed_w=0, g_work_live=0, g_drop_audio=0, g_drop_other=0, g_pages=0;
int ogg_stream_init(ogg_stream_state *os,int s){ memset(os,0,sizeof *os); os->serialno=s; if(os!=&g_vf->os){ g_work_live++; g_head_w=0; g_fed_w=0; } return 0; }
int ogg_stream_clear(ogg_stream_state *os){ if(os && os!=&g_vf->os){ if(g_work_live>0) g_work_live--; } if(os) memset(os,0,sizeof *os); return 0; }
int ogg_stream_reset_serialno(ogg_stream_state *os,int s){ os->serialno=s; if(os==&g_vf->os){ g_head_os=0; g_fed_os=0; } else { g_head_w=0; g_fed_w=0; } return 0; }
int ogg_stream_pagein(ogg_stream_state *os,ogg_page *og){ if(os==&g_vf->os) g_fed_os=1; else g_fed_w=1; return 0; }
int ogg_stream_packetout(ogg_stream_state *os,ogg_packet *op){
  int *head= os==&g_vf->os? &g_head_os:&g_head_w; int fed= os==&g_vf->os? g_fed_os:g_fed_w;
  if(!fed || *head>=g_n) return 0;
  int k=*head; (*head)++;
  if(op){ memset(op,0,sizeof *op); op->packet=env_pkt; op->bytes=1; op->packetno=k; op->granulepos=(k==g_n-1)?g_gp:-1; op->e_o_s=(g_eos&&k==g_n-1); }
  else if(os==&g_vf->os){ if(g_bsz[k]<0) g_drop_other++; else g_drop_audio++; }
  return 1; }
int ogg_stream_packetpeek(ogg_stream_state *os,ogg_packet *op){ return 0; }
long vorbis_packet_blocksize(vorbis_info *vi,ogg_packet *op){ CHECK(vi==g_vf->vi+g_vf->current_link,"block size with the current link's info"); return g_bsz[op->packetno]; }
int ogg_page_serialno(const ogg_page *og){ return (int)g_ser[g_tl]; }
int ogg_page_bos(const ogg_page *og){ return 0; }
int ogg_page_eos(const ogg_page *og){ return g_eos; }
#include "vorbisfile.c"
static ogg_int64_t g_pagepos; static int g_seekfail; static int g_nopage;
static int _seek_helper(OggVorbis_File *vf,ogg_int64_t off){ if(g_seekfail) return OV_EREAD; vf->offset=off; return 0; }
static ogg_int64_t _get_next_page(OggVorbis_File *vf,ogg_page *og,ogg_int64_t boundary){
  if(g_pages>=1 || g_nopage) return ND_BOOL()?OV_EOF:OV_EREAD;   /* end of data or a read error: ov_raw_seek treats both as the end of the stream */ g_pages++;
  og->header=env_hdr; og->header_len=27; og->body=env_body; og->body_len=0; vf->offset=g_pagepos+100; return g_pagepos; }
void harness(void){
  OggVorbis_File vf; memset(&vf,0,sizeof vf); g_vf=&vf; int ds=1; vf.datasource=&ds; vf.callbacks=env_cb; vf.seekable=ND_BOOL(); vf.links=2;
  static vorbis_info vi[2]; static int cs[2]; vi[0].codec_setup=&cs[0]; vi[1].codec_setup=&cs[1]; vf.vi=vi;
  ogg_int64_t offs[3]={0,10000,20000},doffs[2]={1000,11000},pcml[4]; long sers[2]; vf.offsets=offs; vf.dataoffsets=doffs; vf.pcmlengths=pcml; vf.serialnos=sers; vf.end=20000;
  sers[0]=ND_int(); sers[1]=ND_int(); ASSUME(sers[0]!=sers[1]); g_ser[0]=sers[0]; g_ser[1]=sers[1];
  for(int i=0;i<4;i++) pcml[i]=ND_range(0,1L<<30);
  g_tl=ND_irange(0,1); g_eos=ND_irange(0,1); g_n=ND_irange(1,NPK); g_gp=ND_range(0,1L<<31); g_seekfail=ND_BOOL();
  for(int k=0;k<NPK;k++){ long b=ND_long(); ASSUME(b==-1||b==64||b==256||b==2048); g_bsz[k]=b; } ASSUME(g_bsz[g_n-1]>0);   /* the packet carrying the granule position is audio */
  for(int k=1;k<NPK;k++) ASSUME(!(g_bsz[k]<0 && g_bsz[k-1]>0));   /* well-formed link: non-audio (header) packets only precede the audio packets */
  g_nopage=ND_BOOL();       /* no page begins at or after the target (seek into / behind the file's last page) */
  int first=ND_BOOL(); g_pagepos= first? doffs[g_tl] : doffs[g_tl]+ND_range(1,5000);
  vf.ready_state=ND_irange(0,INITSET); ASSUME(vf.ready_state!=1); vf.current_link=ND_irange(0,1); vf.current_serialno=sers[vf.current_link];
  if(vf.ready_state==INITSET){ env_dsp_live=1; env_blk_live=1; }
  ogg_int64_t pos=ND_range(-5,25000); int rs0=vf.ready_state;
  /* the page found is the first at or after pos, inside link TL */
  int r=ov_raw_seek(&vf,pos);
  if(rs0<OPENED){ CHECK(r==OV_EINVAL,"unopened handle"); return; }
  if(!vf.seekable){ CHECK(r==OV_ENOSEEK && vf.ready_state==rs0,"unseekable: refused, decode machine untouched"); WITNESS_AT("not seekable"); return; }
  if(pos<0||pos>vf.end){ CHECK(r==OV_EINVAL && vf.ready_state==rs0 && vf.pcm_offset==0,"out-of-range target refused without touching the handle"); WITNESS_AT("out of range"); return; }
  if(g_seekfail){ CHECK(r==OV_EBADLINK && vf.pcm_offset==-1 && vf.ready_state==OPENED && env_dsp_live==0,"failed seek: machine dumped, position unknown"); WITNESS_AT("seek failed"); return; }
  if(g_nopage){ CHECK(r==0 && vf.pcm_offset==pcml[1]+pcml[3],"no page after the target: position = total length of the WHOLE physical stream"); CHECK(g_work_live==0,"scan state released"); WITNESS_AT("end of file"); return; }
  ASSUME(pos>=offs[g_tl] && pos<=g_pagepos && g_pagepos<offs[g_tl+1]);      /* consistency of the abstract file with the request */
  CHECK(r==0,"in-range raw seek succeeds");
  CHECK(g_work_live==0,"local scan stream state released on every exit");
  if(rs0>=STREAMSET && vf.current_link==g_tl && 0){}
  CHECK(vf.current_link==g_tl && vf.current_serialno==sers[g_tl],"handle is in the link of the page found");
  { ogg_int64_t acc=0; int cnt=0; long last=0; int dropping= g_eos && !first;
    for(int k=0;k<NPK;k++) if(k<g_n && g_bsz[k]>0){ if(!dropping && last) acc+=(last+g_bsz[k])>>2; last=g_bsz[k]; cnt++; }
    ogg_int64_t g=g_gp-pcml[2*g_tl]; if(g<0)g=0; if(g_tl==1) g+=pcml[1]; ogg_int64_t want=g-acc; if(want<0)want=0;
    CHECK(vf.pcm_offset==want,"position = granule-based end position minus the samples of the packets scanned");
    if(dropping){ CHECK(g_drop_audio==cnt,"last page of a link (not its first): its packets are dropped from the decode queue"); WITNESS_AT("last page, not first"); }
    else { CHECK(g_drop_audio==0,"audio packets of the page stay queued for decoding (incl. a link whose only data page is also its last)"); if(g_eos) WITNESS_AT("first page is also the last"); else WITNESS_AT("ordinary page"); }
  }
}
