/* C10/C07 F-read-float — ov_read_float: the requested maximum only bounds the samples returned.
 * real code : ov_read_float (lib/vorbisfile.c)
 * cut       : _fetch_and_process_packet -> contract stub (F-fetch): a documented code; on 1 the handle is INITSET and the decoder holds 0..4096 samples
 * symbolic  : ready state, pending samples, requested length (any int >= 1; <= 0 is outside the claim), half-rate flag, current link,
 *             channels 1..255, position, which output pointers the caller passes
 * assert    : a handle that is not open => OV_EINVAL; pending samples k>0 and length>=1 => returns min(k,length) >= 1 (never the end-of-file value 0
 *             on pending audio, whatever the channel count), consumes exactly that many from the decoder, advances the position by that many << hs,
 *             hands out the decoder's own channel vector and the current link; end of data => 0; any other fetch result is passed through unchanged
 *             and nothing is consumed.
 */
#define VF_EXTRA_STUBS
#include "vf_env.h"
static int g_avail=0, g_hs=0, g_readn=-1, g_reads=0; static float *g_vec[1]; static int g_fetches=0, g_last_fetch=1;
int vorbis_synthesis_pcmout(vorbis_dsp_state *v,float ***pcm){ if(pcm)*pcm=g_vec; return g_avail; }
int vorbis_synthesis_read(vorbis_dsp_state *v,int n){ g_readn=n; g_reads++; return 0; }
int vorbis_synthesis_halfrate_p(vorbis_info *vi){ return g_hs; }
int vorbis_synthesis(vorbis_block *vb,ogg_packet *op){ return 0; }
int vorbis_synthesis_blockin(vorbis_dsp_state *v,vorbis_block *vb){ return 0; }
#include "vorbisfile.c"
static int _fetch_and_process_packet(OggVorbis_File *vf,ogg_packet *op_in,int readp,int spanp){
  CHECK(op_in==0 && readp==1 && spanp==1,"reads on, across links");
  ASSUME(g_fetches<3); g_fetches++;
  int r=ND_int(); ASSUME(r==1||r==OV_EOF||r==OV_HOLE||r==OV_EBADLINK||r==OV_EREAD||r==OV_EFAULT||r==OV_ENOTVORBIS||r==OV_EBADHEADER||r==OV_EVERSION);
  g_last_fetch=r; if(r==1){ vf->ready_state=INITSET; g_avail=ND_irange(0,4096); } return r; }
void harness(void){
  OggVorbis_File vf; memset(&vf,0,sizeof vf); int ds=1; vf.datasource=&ds; vf.callbacks=env_cb; vf.seekable=ND_BOOL(); vf.links=2;
  vorbis_info vis[2]; memset(vis,0,sizeof vis); vis[0].channels=ND_irange(1,255); vis[1].channels=ND_irange(1,255); vf.vi=vis;
  vf.current_link=ND_irange(0,1); vf.ready_state=ND_irange(NOTOPEN,INITSET); g_hs=ND_irange(0,1);
  g_avail=(vf.ready_state==INITSET)?ND_irange(0,4096):0; vf.pcm_offset=ND_range(0,1L<<40); ogg_int64_t po0=vf.pcm_offset;
  int length=ND_int(); ASSUME(length>=1);
  float **out=0; int bs=-7; int want_out=ND_BOOL(), want_bs=ND_BOOL();
  int avail0=g_avail, st0=vf.ready_state;
  long r=ov_read_float(&vf,want_out?&out:0,length,want_bs?&bs:0);
  if(st0<OPENED){ CHECK(r==OV_EINVAL && g_reads==0 && g_fetches==0,"a handle that is not open is refused"); WITNESS_AT("not open"); return; }
  if(r>0){
    int k=g_avail; CHECK(k>0,"samples returned only when the decoder holds some");
    CHECK(r==(k<length?k:length),"returns min(pending, requested maximum)");
    CHECK(g_reads==1 && g_readn==r,"consumes exactly the samples it returns");
    CHECK(vf.pcm_offset==po0+((ogg_int64_t)r<<g_hs),"position advances by the samples returned (<< half-rate shift)");
    if(want_out) CHECK(out==g_vec,"hands out the decoder's channel vector"); if(want_bs) CHECK(bs==vf.current_link,"reports the current link");
    if(length<vis[vf.current_link].channels) WITNESS_AT("request smaller than the channel count"); if(g_fetches>0) WITNESS_AT("returned after fetching");
  }else{
    CHECK(g_reads==0 && vf.pcm_offset==po0,"nothing consumed, position unchanged when no samples are returned");
    CHECK(!(st0==INITSET && avail0>0),"pending audio is never answered with end-of-file or an error");
    CHECK(g_fetches>0 && (g_last_fetch==OV_EOF? r==0 : r==g_last_fetch),"end of data => 0; any other fetch result passed through"); WITNESS_AT("no samples");
  }
}
