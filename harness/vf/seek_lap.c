/* C19 lapseek — the lapped seek wrappers: same repositioning as the plain seek, lap sized from the OLD position's settings.
 * real code : _ov_64_seek_lap (ov_raw_seek_lap / ov_pcm_seek_lap / ov_pcm_seek_page_lap) or, with -DDSEEK, _ov_d_seek_lap
 *             (ov_time_seek_lap / ov_time_seek_page_lap); ov_info, ov_halfrate_p (lib/vorbisfile.c)
 * cut       : _ov_initset, _ov_getlap, _ov_initprime, _ov_splice, the plain seek (ov_pcm_seek / ov_time_seek) -> contract stubs with a
 *             ghost step counter; vorbis_info_blocksize / halfrate_p / vorbis_window / lapout -> ghost per link
 * symbolic  : 2 links with independent short block sizes and channel counts, half-rate flag, the link before and after the seek,
 *             target, every error return
 * assert    : unopened handle => OV_EINVAL, nothing touched; order initset -> getlap -> plain seek -> initprime -> lapout -> splice;
 *             getlap is asked for n1 = bs0(old link)>>(1+hs) samples of ch(old link) channels into buffers of that size; the plain
 *             seek receives the caller's target unchanged, exactly once, AFTER the lap data was taken; a failing step returns its code
 *             and nothing later runs; the splice gets (n1,ch1,w) of the old link and (n2,ch2,w) of the link the seek landed in.
 */
#include "vf_env.h"
static vorbis_info g_vi[2]; static int g_bs0[2], g_hs; static float g_w[2][1]; static float *g_pcm[3]; static float g_pcmbuf[8];
static int g_step=0, g_link_after, g_seekret, g_primeret, g_lapn=-1, g_old;
static OggVorbis_File *g_vf;
int vorbis_info_blocksize(vorbis_info *vi,int zo){ long i=vi-g_vi; CHECK(i>=0&&i<2&&zo==0,"short block size of a link of this handle"); return g_bs0[i]; }
int vorbis_synthesis_halfrate_p(vorbis_info *vi){ return g_hs; }
const float *vorbis_window(vorbis_dsp_state *v,int W){ CHECK(W==0,"short window"); return g_w[g_vf->current_link]; }
int vorbis_synthesis_lapout(vorbis_dsp_state *v,float ***pcm){ CHECK(g_step==4,"lapout after priming"); g_step=5; *pcm=g_pcm; return 16; }
#include "vorbisfile.c"
static int errcode(void){ int r=ND_int(); ASSUME(r==OV_EOF||r==OV_HOLE||r==OV_EBADLINK||r==OV_EFAULT||r==OV_EREAD||r==OV_EINVAL||r==OV_ENOSEEK); return r; }
static int _ov_initset(OggVorbis_File *vf){ CHECK(g_step==0,"initset first"); g_step=1; if(ND_BOOL()) return errcode(); vf->ready_state=INITSET; return 0; }
static void _ov_getlap(OggVorbis_File *vf,vorbis_info *vi,vorbis_dsp_state *vd,float **lappcm,int lapsize){
  CHECK(g_step==1,"lap data taken before the seek"); g_step=2;
  CHECK(vi==&g_vi[g_old] && vd==&vf->vd,"lap taken with the OLD link's info"); g_lapn=lapsize;
  CHECK(lapsize==(g_bs0[g_old]>>(1+g_hs)),"lap size = half short block of the old link at the current rate");
  for(int c=0;c<3;c++) if(c<vi->channels){ lappcm[c][0]=0.f; if(lapsize>0) lappcm[c][lapsize-1]=0.f; } }
static int _ov_initprime(OggVorbis_File *vf){ CHECK(g_step==3,"priming after the seek"); g_step=4; return g_primeret; }
static int g_spliced=0;
static void _ov_splice(float **pcm,float **lappcm,int n1,int n2,int ch1,int ch2,const float *w1,const float *w2){
  CHECK(g_step==5,"splice last"); g_step=6; g_spliced++;
  CHECK(n1==g_lapn && n1==(g_bs0[g_old]>>(1+g_hs)) && ch1==g_vi[g_old].channels && w1==g_w[g_old],"lap side: size, channels and window of the OLD link");
  CHECK(n2==(g_bs0[g_link_after]>>(1+g_hs)) && ch2==g_vi[g_link_after].channels && w2==g_w[g_link_after] && pcm==g_pcm,"new side: size, channels and window of the link the seek landed in"); }
#ifdef DSEEK
static double g_target; static int g_seeks=0;
static int plain_seek(OggVorbis_File *vf,double pos){ CHECK(g_step==2,"plain seek after the lap data was taken"); g_step=3; g_seeks++; CHECK(pos==g_target,"the plain seek receives the caller's target"); if(g_seekret) return g_seekret; vf->current_link=g_link_after; return 0; }
#else
static ogg_int64_t g_target; static int g_seeks=0;
static int plain_seek(OggVorbis_File *vf,ogg_int64_t pos){ CHECK(g_step==2,"plain seek after the lap data was taken"); g_step=3; g_seeks++; CHECK(pos==g_target,"the plain seek receives the caller's target"); if(g_seekret) return g_seekret; vf->current_link=g_link_after; return 0; }
#endif
void harness(void){
  static OggVorbis_File a; g_vf=&a; a.vi=g_vi; a.links=2; a.seekable=1; a.ready_state=ND_irange(0,INITSET); ASSUME(a.ready_state!=1);
  for(int i=0;i<2;i++){ g_vi[i].channels=ND_irange(1,3); int e=ND_irange(6,12); g_bs0[i]=1<<e; }
  g_hs=ND_irange(0,1); ASSUME(!(g_hs && (g_bs0[0]==64||g_bs0[1]==64)));
  g_old=ND_irange(0,1); a.current_link=g_old; g_link_after=ND_irange(0,1);
  g_seekret=ND_BOOL()?errcode():0; g_primeret=ND_BOOL()?errcode():0;
  for(int c=0;c<3;c++) g_pcm[c]=g_pcmbuf;
  int rs0=a.ready_state;
#ifdef DSEEK
  g_target=ND_double(); ASSUME(g_target==g_target); int r=_ov_d_seek_lap(&a,g_target,plain_seek);
#else
  g_target=ND_long(); int r=_ov_64_seek_lap(&a,g_target,plain_seek);
#endif
  if(rs0<OPENED){ CHECK(r==OV_EINVAL && g_step==0,"unopened handle => OV_EINVAL, nothing touched"); WITNESS_AT("rejected"); return; }
  if(g_step==1){ CHECK(r!=0,"initset failure returned"); return; }
  CHECK(g_seeks==1,"exactly one plain seek");
  if(g_seekret){ CHECK(r==g_seekret && g_step==3 && !g_spliced,"seek failure is returned and nothing is spliced"); WITNESS_AT("seek failed"); return; }
  if(g_primeret){ CHECK(r==g_primeret && g_step==4 && !g_spliced,"priming failure is returned and nothing is spliced"); return; }
  CHECK(r==0 && g_step==6 && g_spliced==1,"success: exactly one splice, after lapout");
  if(g_old!=g_link_after) WITNESS_AT("seek crossed into the other link");
}
