/* C19 splice — the cross-fade itself: which samples a lapped seek changes, with which window, and what it leaves alone.
 * real code : _ov_splice (lib/vorbisfile.c)
 * symbolic  : half-block sizes n1 (old position), n2 (new position) in 1..CAP, channel counts ch1, ch2 in 1..3 (the shape); samples and window
 *             coefficients are concrete pairwise distinct tags (equal sizes share one window table, as vorbis_window() guarantees)
 * assert    : with n = min(n1,n2) and w = the window of the SHORTER of the two half blocks (property: "window-weighted cross-fade ... inside the
 *             first half short block"): for channels present on both sides new[i] = new[i]*w[i]^2 + old[i]*(1-w[i]^2), i<n; channels only on the
 *             new side fade in from silence (new[i]*w[i]^2); nothing at or beyond n, no channel >= ch2 and nothing of the old lap is written.
 */
#include "vf_env.h"
#include "vorbisfile.c"
#ifndef CAP
#define CAP 3
#endif
#define NCH 3
static int feq(float a,float b){ return a==b || (a!=a && b!=b); }
void harness(void){
  float pcm_[NCH][CAP+1], lap_[NCH][CAP+1], pcm0[NCH][CAP+1], lap0[NCH][CAP+1], w1[CAP], w2[CAP];
  float *pcm[NCH], *lap[NCH];
  int n1=ND_irange(1,CAP), n2=ND_irange(1,CAP), ch1=ND_irange(1,NCH), ch2=ND_irange(1,NCH);
  /* tags: concrete, pairwise distinct window coefficients and samples (every product/sum below is exact in float), symbolic SHAPE: arbitrary
     float samples and coefficients do not finish (900 s at 3 cells x 3 channels); any wrong window, length or channel changes a tagged value */
  for(int i=0;i<CAP;i++){ w1[i]=.5f+.0625f*i; w2[i]=.25f+.03125f*i; }
  if(n1==n2) for(int i=0;i<CAP;i++) w2[i]=w1[i];
  for(int j=0;j<NCH;j++){ pcm[j]=pcm_[j]; lap[j]=lap_[j]; for(int i=0;i<=CAP;i++){ pcm0[j][i]=pcm_[j][i]=(float)(1+j*16+i); lap0[j][i]=lap_[j][i]=(float)(100+j*16+i); } }
  _ov_splice(pcm,lap,n1,n2,ch1,ch2,w1,w2);
  int n=n1<n2?n1:n2; const float *w=n1<=n2?w1:w2;
  if(n1<n2) WITNESS_AT("old block shorter"); if(n1>n2) WITNESS_AT("new block shorter"); if(ch2>ch1) WITNESS_AT("channels fade in from silence");
  for(int j=0;j<NCH;j++) for(int i=0;i<=CAP;i++){
    CHECK(feq(lap_[j][i],lap0[j][i]),"the old lap is only read");
    if(j>=ch2 || i>=n){ CHECK(feq(pcm_[j][i],pcm0[j][i]),"nothing beyond the shorter half block and no channel the new link lacks is touched"); }
    else{ float wd=w[i]*w[i]; float ws=1.-wd;
      if(j<ch1) CHECK(feq(pcm_[j][i],pcm0[j][i]*wd+lap0[j][i]*ws),"cross-fade with the window of the shorter half block");
      else CHECK(feq(pcm_[j][i],pcm0[j][i]*wd),"channel absent before the seek fades in from silence with the same window"); }
  }
}
