/* C08 time-seek — a time seek is a sample seek to t*rate inside the link that contains t.
 * real code : ov_time_seek, ov_time_seek_page (-DPAGE), ov_time_total (lib/vorbisfile.c)
 * cut       : ov_pcm_seek / ov_pcm_seek_page -> record the target and return an arbitrary result (their own harnesses: pcm-exact, page-bisect)
 * config    : the link table (lengths, rates) is concrete per job: double arithmetic on symbolic lengths AND rates costs minutes per operation
 *             (A.2 (f)); the requested time is any double bit pattern, the ready state and seekability are symbolic
 * assert    : negative, NaN-free out-of-range or not-open/not-seekable requests are refused (OV_EINVAL / OV_ENOSEEK) without a seek; otherwise the
 *             sample target handed to the sample seek lies within one sample of  sum(lengths of earlier links) + (t - start time of the link)*rate
 *             of the link that contains t, with the start time accumulated in DOUBLE precision (reference computed in the harness from the table),
 *             the target is inside that link, and the seek's result is passed through.
 */
#include "vf_env.h"
#include "vorbisfile.c"
static ogg_int64_t g_target=-1; static int g_calls=0, g_ret=0;
#ifdef PAGE
int ov_pcm_seek_page(OggVorbis_File *vf,ogg_int64_t pos){ g_target=pos; g_calls++; g_ret=ND_irange(-140,0); return g_ret; }
#define SEEK ov_time_seek_page
#else
int ov_pcm_seek(OggVorbis_File *vf,ogg_int64_t pos){ g_target=pos; g_calls++; g_ret=ND_irange(-140,0); return g_ret; }
#define SEEK ov_time_seek
#endif
#ifndef L0
#define L0 8000052L
#define R0 8000L
#define L1 60000L
#define R1 192000L
#define L2 44100L
#define R2 44100L
#endif
void harness(void){
  OggVorbis_File vf; memset(&vf,0,sizeof vf); int ds=1; vf.datasource=&ds; vf.callbacks=env_cb; vf.seekable=ND_BOOL(); vf.links=3;
  vorbis_info vis[3]; memset(vis,0,sizeof vis); vis[0].rate=R0; vis[1].rate=R1; vis[2].rate=R2; vis[0].channels=vis[1].channels=vis[2].channels=1; vf.vi=vis;
  ogg_int64_t pl[6]={0,L0,0,L1,0,L2}; vf.pcmlengths=pl; vf.ready_state=ND_irange(NOTOPEN,INITSET); vf.current_link=ND_irange(0,2);
  double t=ND_double();
  int r=SEEK(&vf,t);
  if(vf.ready_state<OPENED){ CHECK(r==OV_EINVAL && g_calls==0,"not open: refused"); return; }
  if(!vf.seekable){ CHECK(r==OV_ENOSEEK && g_calls==0,"not seekable: refused"); return; }
  if(t!=t) return;                       /* NaN: outside the claim (no property speaks about it) */
  double T0=(double)L0/R0, T1=(double)L1/R1, T2=(double)L2/R2;
  if(t<0 || t>=T0+T1+T2){ CHECK(r==OV_EINVAL && g_calls==0,"out-of-range time refused without seeking"); WITNESS_AT("out of range"); return; }
  CHECK(g_calls==1 && r==g_ret,"exactly one sample seek, its result passed through");
  double want; ogg_int64_t lo,hi;
  if(t<T0){ want=t*R0; lo=0; hi=L0; } else if(t<T0+T1){ want=L0+(t-T0)*R1; lo=L0; hi=L0+L1; WITNESS_AT("second link"); } else { want=L0+L1+(t-(T0+T1))*R2; lo=L0+L1; hi=L0+L1+L2; WITNESS_AT("third link"); }
  CHECK((double)g_target>=want-1. && (double)g_target<=want+1.,"target within one sample of t*rate in the containing link (link start times in double precision)");
  CHECK(g_target>=lo-1 && g_target<=hi,"target inside the containing link");
}
