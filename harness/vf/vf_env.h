/* vf_env.h — environment for vorbisfile harnesses: application callbacks with fault injection, libogg framing as
 * contract stubs (M-frame(b): any return value the manual allows; pages/packets with arbitrary contents), libvorbis
 * decode API as contract stubs with ghost state.  Each stub consumes one unit of the event budget (env_budget); when it
 * is exhausted every source reports end of data (paths needing more events are outside the bound). */
#ifndef VF_ENV_H
#define VF_ENV_H
#include "verif.h"
#include <stdlib.h>
#include <string.h>
#include <errno.h>
#include <ogg/ogg.h>
#include "vorbis/codec.h"
#include "vorbis/vorbisfile.h"
#include "codec_internal.h"
#ifndef ENV_BUDGET
#define ENV_BUDGET 6
#endif
static int env_budget=ENV_BUDGET;
static int env_closes=0;           /* ghost: number of close_func invocations */
static int env_seek_fail=0;        /* ghost: a seek callback has failed */
static int env_dsp_live=0;         /* ghost: vd initialised (vorbis_synthesis_init .. vorbis_dsp_clear) */
static int env_blk_live=0;
/* ---------- application callbacks ---------- */
static size_t cb_read(void *ptr,size_t size,size_t nmemb,void *ds){
  if(env_budget<=0) return 0; env_budget--;
  long r=ND_range(0,(long)nmemb); if(r==0) errno=ND_int(); return (size_t)r; }
static int cb_seek(void *ds,ogg_int64_t off,int whence){ int r=ND_irange(-1,0); if(r) env_seek_fail=1; return r; }
static int cb_close(void *ds){ env_closes++; return 0; }
static long cb_tell(void *ds){ return ND_range(-1,1L<<40); }
static const ov_callbacks env_cb={cb_read,cb_seek,cb_close,cb_tell};
static const ov_callbacks env_cb_noseek={cb_read,0,cb_close,0};
/* ---------- libogg framing: contract stubs ---------- */
static unsigned char env_hdr[27], env_body[4]; static char env_syncbuf[4096];
int ogg_sync_init(ogg_sync_state *oy){ memset(oy,0,sizeof *oy); return 0; }
int ogg_sync_clear(ogg_sync_state *oy){ memset(oy,0,sizeof *oy); return 0; }
int ogg_sync_reset(ogg_sync_state *oy){ return 0; }
char *ogg_sync_buffer(ogg_sync_state *oy,long size){ CHECK(size>=0 && size<=4096,"ogg_sync_buffer request within the model's buffer"); return env_syncbuf; }
int ogg_sync_wrote(ogg_sync_state *oy,long bytes){ return 0; }
static void env_fill_page(ogg_page *og){ og->header=env_hdr; og->header_len=27; og->body=env_body; og->body_len=4; for(int i=0;i<27;i++)env_hdr[i]=ND_uchar(); }
long ogg_sync_pageseek(ogg_sync_state *oy,ogg_page *og){
  if(env_budget<=0) return 0; env_budget--;
  long r=ND_range(-65536,65307);
  if(r>0) env_fill_page(og);
  return r; }
int ogg_page_bos(const ogg_page *og){ return og->header[5]&2; }
int ogg_page_eos(const ogg_page *og){ return og->header[5]&4; }
int ogg_page_continued(const ogg_page *og){ return og->header[5]&1; }
int ogg_page_serialno(const ogg_page *og){ return (int)(og->header[14]|(og->header[15]<<8)|(og->header[16]<<16)|((unsigned)og->header[17]<<24)); }
ogg_int64_t ogg_page_granulepos(const ogg_page *og){ unsigned long g=0; for(int i=13;i>=6;i--) g=(g<<8)|og->header[i]; return (ogg_int64_t)g; }
int ogg_stream_init(ogg_stream_state *os,int serialno){ memset(os,0,sizeof *os); os->serialno=serialno; os->body_data=malloc(1); return 0; }
int ogg_stream_clear(ogg_stream_state *os){ if(os){ if(os->body_data)free(os->body_data); memset(os,0,sizeof *os);} return 0; }
int ogg_stream_reset(ogg_stream_state *os){ return 0; }
int ogg_stream_reset_serialno(ogg_stream_state *os,int serialno){ os->serialno=serialno; return 0; }
/* ghost page identity: the page source of a harness bumps env_page_id for every page it hands out; pagein records which page the stream layer saw last */
static int env_page_id=0, env_page_in=-1;
int ogg_stream_pagein(ogg_stream_state *os,ogg_page *og){
#ifdef VF_PAGEIN_HOOK
  VF_PAGEIN_HOOK(os,og);
#endif
  env_page_in=env_page_id; return ND_BOOL()?0:-1; }
static unsigned char env_pkt[8];
static ogg_int64_t env_last_gran=-1; static int env_last_eos=0;   /* ghost: granule position / e_o_s of the packet handed out last */
static int env_pk(ogg_packet *op){ if(env_budget<=0) return 0; env_budget--; int r=ND_irange(-1,1);
  if(r>0&&op){ op->packet=env_pkt; op->bytes=ND_irange(0,8); op->b_o_s=ND_irange(0,1); op->e_o_s=ND_irange(0,1); op->granulepos=ND_range(-1,1L<<40); op->packetno=ND_range(0,1L<<40); env_last_gran=op->granulepos; env_last_eos=(int)op->e_o_s; }
  return r; }
int ogg_stream_packetout(ogg_stream_state *os,ogg_packet *op){ return env_pk(op); }
int ogg_stream_packetpeek(ogg_stream_state *os,ogg_packet *op){ return env_pk(op); }
/* ---------- libvorbis: contract stubs ---------- */
void vorbis_info_init(vorbis_info *vi){ memset(vi,0,sizeof *vi); vi->codec_setup=calloc(1,8); }
void vorbis_info_clear(vorbis_info *vi){ if(vi->codec_setup)free(vi->codec_setup); memset(vi,0,sizeof *vi); }
void vorbis_comment_init(vorbis_comment *vc){ memset(vc,0,sizeof *vc); }
void vorbis_comment_clear(vorbis_comment *vc){ if(vc->vendor)free(vc->vendor); memset(vc,0,sizeof *vc); }
int vorbis_synthesis_idheader(ogg_packet *op){ return ND_BOOL(); }
int vorbis_synthesis_headerin(vorbis_info *vi,vorbis_comment *vc,ogg_packet *op){
  int r=ND_int(); if(r){ ASSUME(r==OV_ENOTVORBIS||r==OV_EBADHEADER||r==OV_EFAULT||r==OV_EVERSION); return r; }
  vi->rate=ND_range(1,1L<<31); vi->channels=ND_irange(1,255);
  if(!vc->vendor)vc->vendor=malloc(1); return 0; }
static vorbis_info *env_init_vi=0;  /* ghost: info the decoder was last initialised with */
int vorbis_synthesis_init(vorbis_dsp_state *v,vorbis_info *vi){ if(ND_BOOL()) return 1; env_dsp_live++; env_init_vi=vi; v->vi=vi; return 0; }
int vorbis_block_init(vorbis_dsp_state *v,vorbis_block *vb){ env_blk_live++; return 0; }
int vorbis_block_clear(vorbis_block *vb){ env_blk_live=0; memset(vb,0,sizeof *vb); return 0; }
void vorbis_dsp_clear(vorbis_dsp_state *v){ env_dsp_live=0; memset(v,0,sizeof *v); }
int vorbis_synthesis_restart(vorbis_dsp_state *v){ return 0; }
#ifndef VF_CUSTOM_BLOCKSIZE
long vorbis_packet_blocksize(vorbis_info *vi,ogg_packet *op){ long r=ND_long(); ASSUME(r==OV_ENOTAUDIO||r==OV_EBADPACKET||r==64||r==128||r==2048); return r; }
#endif
#if !VERIF_NATIVE
/* cbmc's linker aborts (casting_replace_symbol.cpp) on its stdio models vs vorbisfile.c's callback casts: the stdio
   convenience wrappers ov_open/ov_fopen/ov_test are outside every claim and see inert functions */
static size_t verif_fread(void *p,size_t s,size_t n,void *f){ return 0; }
static int verif_fseek(void *f,long o,int w){ return -1; }
static int verif_fclose(void *f){ return 0; }
static long verif_ftell(void *f){ return -1; }
static void *verif_fopen(const char *p,const char *m){ return 0; }
#define fread verif_fread
#define fseek verif_fseek
#define fclose verif_fclose
#define ftell verif_ftell
#define fopen verif_fopen
#endif
#endif
