/* M-bitsrc: abstract bit source.  Same position accounting as libogg's read side (endbyte/endbit/storage,
 * sticky end-of-packet, 0..32 bit reads) but the DATA returned by every read is an arbitrary value < 2^bits.
 * Every behaviour of the real bit-packer on any packet contents is a behaviour of this model
 * (over-approximation: sound for safety properties of parsers). */
#include <ogg/ogg.h>
#include <string.h>
static const unsigned long bitsrc_mask[]=
{0x00000000,0x00000001,0x00000003,0x00000007,0x0000000f,
 0x0000001f,0x0000003f,0x0000007f,0x000000ff,0x000001ff,
 0x000003ff,0x000007ff,0x00000fff,0x00001fff,0x00003fff,
 0x00007fff,0x0000ffff,0x0001ffff,0x0003ffff,0x0007ffff,
 0x000fffff,0x001fffff,0x003fffff,0x007fffff,0x00ffffff,
 0x01ffffff,0x03ffffff,0x07ffffff,0x0fffffff,0x1fffffff,
 0x3fffffff,0x7fffffff,0xffffffff };
static unsigned char bitsrc_dummy[8];
static int bitsrc_calls;   /* ordinal of the next successful oggpack_read, for harness-stated size bounds (BITSRC_HOOK) */
void oggpack_readinit(oggpack_buffer *b,unsigned char *buf,int bytes){
  memset(b,0,sizeof(*b)); b->buffer=b->ptr=buf?buf:bitsrc_dummy; b->storage=bytes;
}
static int bitsrc_avail(oggpack_buffer *b,int bits){   /* bits already includes endbit */
  if(b->endbyte >= b->storage-4){ if(b->endbyte > b->storage-((bits+7)>>3)) return 0; }
  return 1;
}
long oggpack_look(oggpack_buffer *b,int bits){
  if(bits<0 || bits>32) return -1;
  unsigned long m=bitsrc_mask[bits];
  if(!bitsrc_avail(b,bits+b->endbit)) return -1;
  if(!(bits+b->endbit)) return 0;
  return (long)(ND_ulong()&m);
}
void oggpack_adv(oggpack_buffer *b,int bits){
  bits+=b->endbit;
  if(b->endbyte > b->storage-((bits+7)>>3)){ b->ptr=0; b->endbyte=b->storage; b->endbit=1; return; }
  b->endbyte+=bits/8; b->endbit=bits&7;
}
long oggpack_read(oggpack_buffer *b,int bits){
  if(bits<0 || bits>32) goto err;
  { unsigned long m=bitsrc_mask[bits];
    bits+=b->endbit;
    if(!bitsrc_avail(b,bits)) goto err;
    if(b->endbyte >= b->storage-4 && !bits) return 0;
    long ret=(long)(ND_ulong()&m);
#ifdef BITSRC_HOOK
    BITSRC_HOOK(bitsrc_calls,ret);
#endif
#ifdef BITSRC_HOOK2
    BITSRC_HOOK2(bitsrc_calls,(bits-b->endbit),ret);   /* also the field width: harnesses bound count fields by their width */
#endif
    bitsrc_calls++;
    b->endbyte+=bits/8; b->endbit=bits&7;
    return ret; }
 err:
  b->ptr=0; b->endbyte=b->storage; b->endbit=1; return -1L;
}
long oggpack_bytes(oggpack_buffer *b){ return(b->endbyte+(b->endbit+7)/8); }
long oggpack_bits(oggpack_buffer *b){ return(b->endbyte*8+b->endbit); }
