/* M-libm ldexp: exact for finite x and -1022 <= e <= 1023 (2^e built from its bit pattern, one exact multiplication when the
   result is representable); CBMC 6.11 ships no body for ldexp.  libvorbis clamps the exponent to +-63 before calling it. */
#if !VERIF_NATIVE
double ldexp(double x,int e){ union{double d; unsigned long u;} p; __CPROVER_assert(e>=-1022 && e<=1023,"ldexp model domain"); p.u=(unsigned long)(e+1023)<<52; return x*p.d; }
#endif
