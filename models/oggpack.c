/* M-bitpack: model of libogg 1.3.5 bitwise.c (LSb packer).  Read side bit-exact; write side uses a fixed
 * capacity buffer (OGGPACK_MODEL_CAP bytes) and asserts it is never exceeded instead of modelling realloc growth.
 * Validated against the real libogg.a by tools/diff_oggpack.c (same file compiled natively with MODEL_PREFIX). */
#include <ogg/ogg.h>
#include <string.h>
#include <stdlib.h>
#ifndef OGGPACK_MODEL_CAP
#define OGGPACK_MODEL_CAP 256
#endif
#ifdef MODEL_PREFIX
#define oggpack_readinit m_oggpack_readinit
#define oggpack_look m_oggpack_look
#define oggpack_adv m_oggpack_adv
#define oggpack_read m_oggpack_read
#define oggpack_bytes m_oggpack_bytes
#define oggpack_bits m_oggpack_bits
#define oggpack_writeinit m_oggpack_writeinit
#define oggpack_writeclear m_oggpack_writeclear
#define oggpack_reset m_oggpack_reset
#define oggpack_write m_oggpack_write
#define oggpack_writetrunc m_oggpack_writetrunc
#define oggpack_get_buffer m_oggpack_get_buffer
#define MODEL_CAP_ASSERT(c) do{ if(!(c)){ abort(); } }while(0)
#else
#define MODEL_CAP_ASSERT(c) __CPROVER_assert(c,"M-bitpack write buffer capacity (harness bound)")
#endif
static const unsigned long mask[]=
{0x00000000,0x00000001,0x00000003,0x00000007,0x0000000f,
 0x0000001f,0x0000003f,0x0000007f,0x000000ff,0x000001ff,
 0x000003ff,0x000007ff,0x00000fff,0x00001fff,0x00003fff,
 0x00007fff,0x0000ffff,0x0001ffff,0x0003ffff,0x0007ffff,
 0x000fffff,0x001fffff,0x003fffff,0x007fffff,0x00ffffff,
 0x01ffffff,0x03ffffff,0x07ffffff,0x0fffffff,0x1fffffff,
 0x3fffffff,0x7fffffff,0xffffffff };
void oggpack_readinit(oggpack_buffer *b,unsigned char *buf,int bytes){
  memset(b,0,sizeof(*b));
  b->buffer=b->ptr=buf;
  b->storage=bytes;
}
long oggpack_look(oggpack_buffer *b,int bits){
  unsigned long ret;
  unsigned long m;
  if(bits<0 || bits>32) return -1;
  m=mask[bits];
  bits+=b->endbit;
  if(b->endbyte >= b->storage-4){
    if(b->endbyte > b->storage-((bits+7)>>3)) return -1;
    else if(!bits)return(0L);
  }
  ret=b->ptr[0]>>b->endbit;
  if(bits>8){
    ret|=b->ptr[1]<<(8-b->endbit);
    if(bits>16){
      ret|=b->ptr[2]<<(16-b->endbit);
      if(bits>24){
        ret|=b->ptr[3]<<(24-b->endbit);
        if(bits>32 && b->endbit)
          ret|=b->ptr[4]<<(32-b->endbit);
      }
    }
  }
  return(m&ret);
}
void oggpack_adv(oggpack_buffer *b,int bits){
  bits+=b->endbit;
  if(b->endbyte > b->storage-((bits+7)>>3)) goto overflow;
  b->ptr+=bits/8;
  b->endbyte+=bits/8;
  b->endbit=bits&7;
  return;
 overflow:
  b->ptr=NULL;
  b->endbyte=b->storage;
  b->endbit=1;
}
long oggpack_read(oggpack_buffer *b,int bits){
  long ret;
  unsigned long m;
  if(bits<0 || bits>32) goto err;
  m=mask[bits];
  bits+=b->endbit;
  if(b->endbyte >= b->storage-4){
    if(b->endbyte > b->storage-((bits+7)>>3)) goto overflow;
    else if(!bits)return(0L);
  }
  ret=b->ptr[0]>>b->endbit;
  if(bits>8){
    ret|=b->ptr[1]<<(8-b->endbit);
    if(bits>16){
      ret|=b->ptr[2]<<(16-b->endbit);
      if(bits>24){
        ret|=b->ptr[3]<<(24-b->endbit);
        if(bits>32 && b->endbit){
          ret|=b->ptr[4]<<(32-b->endbit);
        }
      }
    }
  }
  ret&=m;
  b->ptr+=bits/8;
  b->endbyte+=bits/8;
  b->endbit=bits&7;
  return ret;
 overflow:
 err:
  b->ptr=NULL;
  b->endbyte=b->storage;
  b->endbit=1;
  return -1L;
}
long oggpack_bytes(oggpack_buffer *b){ return(b->endbyte+(b->endbit+7)/8); }
long oggpack_bits(oggpack_buffer *b){ return(b->endbyte*8+b->endbit); }
/* ---- write side ---- */
#define BUFFER_INCREMENT OGGPACK_MODEL_CAP
void oggpack_writeinit(oggpack_buffer *b){
  memset(b,0,sizeof(*b));
  b->ptr=b->buffer=malloc(BUFFER_INCREMENT);
  b->buffer[0]='\0';
  b->storage=BUFFER_INCREMENT;
}
void oggpack_writeclear(oggpack_buffer *b){
  if(b->buffer)free(b->buffer);
  memset(b,0,sizeof(*b));
}
void oggpack_reset(oggpack_buffer *b){
  if(!b->ptr)return;
  b->ptr=b->buffer;
  b->buffer[0]=0;
  b->endbit=b->endbyte=0;
}
void oggpack_write(oggpack_buffer *b,unsigned long value,int bits){
  if(bits<0 || bits>32) goto err;
  MODEL_CAP_ASSERT(b->ptr!=0 && b->endbyte<b->storage-4);
  value&=mask[bits];
  bits+=b->endbit;
  b->ptr[0]|=value<<b->endbit;
  if(bits>=8){
    b->ptr[1]=(unsigned char)(value>>(8-b->endbit));
    if(bits>=16){
      b->ptr[2]=(unsigned char)(value>>(16-b->endbit));
      if(bits>=24){
        b->ptr[3]=(unsigned char)(value>>(24-b->endbit));
        if(bits>=32){
          if(b->endbit)
            b->ptr[4]=(unsigned char)(value>>(32-b->endbit));
          else
            b->ptr[4]=0;
        }
      }
    }
  }
  b->endbyte+=bits/8;
  b->ptr+=bits/8;
  b->endbit=bits&7;
  return;
 err:
  oggpack_writeclear(b);
}
unsigned char *oggpack_get_buffer(oggpack_buffer *b){ return(b->buffer); }
void oggpack_writetrunc(oggpack_buffer *b,long bits){
  long bytes=bits>>3;
  if(b->ptr){
    bits-=bytes*8;
    b->ptr=b->buffer+bytes;
    b->endbit=bits;
    b->endbyte=bytes;
    *b->ptr&=mask[bits];
  }
}
