/* M-libc qsort as a CONTRACT for arrays of pointers: the result is some permutation of the input that the caller's
 * comparator reports sorted (nondeterministic permutation + assumes).  Used by parser harnesses with up to QMAX elements, where
 * executing a sort symbolically dominates the cost.  Validated against models/qsort_small.c for n<=6 by harness C02/qsort_contract. */
#ifndef QMAX
#define QMAX 28
#endif
void qsort(void *base,size_t n,size_t sz,int(*cmp)(const void*,const void*)){
  CHECK(sz==sizeof(void*) && n<=QMAX,"qsort contract domain (pointer elements, n<=QMAX)");
  void **a=base; void *in[QMAX]; int perm[QMAX];
  for(size_t i=0;i<QMAX;i++) if(i<n) in[i]=a[i];
  for(size_t i=0;i<QMAX;i++) if(i<n){ perm[i]=ND_irange(0,QMAX-1); ASSUME(perm[i]<(int)n); }
  for(size_t i=0;i<QMAX;i++) for(size_t k=0;k<QMAX;k++) if(i<k && k<n) ASSUME(perm[i]!=perm[k]);
  for(size_t i=0;i<QMAX;i++) if(i<n) a[i]=in[perm[i]];
  for(size_t i=1;i<QMAX;i++) if(i<n) ASSUME(cmp(&a[i-1],&a[i])<=0);
}
