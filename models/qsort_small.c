/* M-libc qsort: executable insertion sort for arrays of pointers (the only element kind libvorbis sorts: int* in
 * floor1.c, ogg_uint32_t* in sharedbook.c).  Exact (any correct sort yields the same sequence of *keys*; ties are
 * between equal keys only).  Used where n is small; parser harnesses with large n use the contract version. */
#include <stddef.h>
void qsort(void *base,size_t n,size_t size,int(*cmp)(const void*,const void*)){
  void **a=(void **)base;
#if !VERIF_NATIVE
  __CPROVER_assert(size==sizeof(void*),"qsort model: pointer-sized elements");
#endif
  for(size_t i=1;i<n;i++){
    void *k=a[i]; size_t j=i;
    while(j>0 && cmp(&a[j-1],&k)>0){ a[j]=a[j-1]; j--; }
    a[j]=k;
  }
}
