#!/bin/sh
# Build /repo WITHOUT -DXIPH_VORBIS_VERIF in a scratch directory and run the repository's test suite.
set -e
REPO=${VERIF_REPO:-/repo}
B=$(mktemp -d /var/tmp/vorbis_baseline.XXXXXX)
trap 'rm -rf "$B"' EXIT
cmake -G Ninja -S "$REPO" -B "$B" -DCMAKE_BUILD_TYPE=RelWithDebInfo >/dev/null
cmake --build "$B" >/dev/null
ctest --test-dir "$B" -j8 --timeout 900 --output-on-failure
