#!/bin/bash
# confirm_seed.sh <dir with patch.diff, build_and_run.sh>  -> prints CONFIRMED / REJECTED with details
# Confirms in a scratch worktree: patch applies, library builds, existing test suite passes, demo fails with the
# change and passes without it.  Removes the worktree and its build output afterwards.
D=$(readlink -f "$1"); TAG=$(echo "$D" | tr '/' '_')
W=/tmp/cs$TAG; rm -rf "$W"; git -C /repo worktree prune
git -C /repo worktree add -q --detach "$W" HEAD || exit 2
res=""
( cd "$W" && git apply "$D/patch.diff" ) || { echo "REJECTED $1: patch does not apply"; git -C /repo worktree remove --force "$W"; exit 1; }
if cmake -G Ninja -S "$W" -B "$W/_b" -DCMAKE_BUILD_TYPE=RelWithDebInfo >/dev/null 2>&1 && cmake --build "$W/_b" >/dev/null 2>&1; then res="$res build=ok"; else res="$res build=FAIL"; fi
n=$(cd "$W/_b/test" 2>/dev/null && ./vorbis_test 2>&1 | grep -c "ok$")
ct=$(ctest --test-dir "$W/_b" -j8 --timeout 900 2>&1 | grep -c "100% tests passed")
res="$res ctest100=$ct oklines=$n"
timeout 900 bash "$D/build_and_run.sh" "$W" >/tmp/cs_out_mut$TAG.txt 2>&1; rm_=$?
( cd "$W" && git checkout -q -- . ) ; rm -rf "$W/_b"
timeout 900 bash "$D/build_and_run.sh" "$W" >/tmp/cs_out_pri$TAG.txt 2>&1; rp=$?
res="$res demo_mutated_rc=$rm_ demo_pristine_rc=$rp"
git -C /repo worktree remove --force "$W"; git -C /repo worktree prune
if [ "$ct" = 1 ] && [ $rm_ -ne 0 ] && [ $rp -eq 0 ] && echo "$res" | grep -q "build=ok"; then echo "CONFIRMED $1:$res"; else echo "REJECTED $1:$res"; fi
