/* Differential validation of models/oggpack.c (M-bitpack) against the real libogg (linked with -logg). */
#include <stdio.h>
#include <stdlib.h>
#include <string.h>
#include <ogg/ogg.h>
#define MODEL_PREFIX
#include "oggpack.c"
#undef oggpack_readinit
#undef oggpack_look
#undef oggpack_adv
#undef oggpack_read
#undef oggpack_bytes
#undef oggpack_bits
#undef oggpack_writeinit
#undef oggpack_writeclear
#undef oggpack_reset
#undef oggpack_write
#undef oggpack_writetrunc
#undef oggpack_get_buffer
static unsigned long long rs=88172645463325252ULL;
static unsigned rnd(void){ rs^=rs<<13; rs^=rs>>7; rs^=rs<<17; return (unsigned)(rs>>11); }
static long nchk=0;
#define EQ(a,b,what) do{ nchk++; if((a)!=(b)){ printf("MISMATCH %s: real=%ld model=%ld\n",what,(long)(a),(long)(b)); exit(1);} }while(0)
int main(void){
  /* read side: every length 0..9, every start offset, widths -1..33, exhaustive over (start bit, width) for 64 patterns each */
  for(int L=0;L<=9;L++) for(int pat=0;pat<64;pat++){
    unsigned char buf[16]; for(int i=0;i<16;i++) buf[i]=pat<2?(pat?0xff:0):rnd();
    for(int pre=0;pre<=L*8+9;pre++) for(int w=-1;w<=33;w++) for(int op=0;op<3;op++){
      oggpack_buffer a,b; oggpack_readinit(&a,buf,L); m_oggpack_readinit(&b,buf,L);
      /* advance to 'pre' with reads of <=7 bits then one op */
      int left=pre; while(left>0){ int k=left>7?7:left; long x=oggpack_read(&a,k),y=m_oggpack_read(&b,k); EQ(x,y,"pre-read"); left-=k; }
      if(op==0){ long x=oggpack_read(&a,w),y=m_oggpack_read(&b,w); EQ(x,y,"read"); }
      else if(op==1){ long x=oggpack_look(&a,w),y=m_oggpack_look(&b,w); EQ(x,y,"look"); }
      else { if(w>=0){ oggpack_adv(&a,w); m_oggpack_adv(&b,w);} }
      EQ(oggpack_bytes(&a),m_oggpack_bytes(&b),"bytes"); EQ(oggpack_bits(&a),m_oggpack_bits(&b),"bits");
      long x=oggpack_read(&a,1),y=m_oggpack_read(&b,1); EQ(x,y,"read-after");
      x=oggpack_read(&a,32); y=m_oggpack_read(&b,32); EQ(x,y,"read32-after");
      EQ(oggpack_bytes(&a),m_oggpack_bytes(&b),"bytes2");
    }
  }
  /* write side: random op sequences within the model capacity */
  for(int it=0;it<200000;it++){
    oggpack_buffer a,b; oggpack_writeinit(&a); m_oggpack_writeinit(&b);
    int n=rnd()%12;
    for(int k=0;k<n;k++){
      int op=rnd()%10;
      if(op<7){ int w=rnd()%33; unsigned long v=((unsigned long)rnd()<<16)^rnd(); oggpack_write(&a,v,w); m_oggpack_write(&b,v,w); }
      else if(op==7){ long bits=oggpack_bits(&a); long t=bits? rnd()%(bits+1):0; oggpack_writetrunc(&a,t); m_oggpack_writetrunc(&b,t); }
      else if(op==8){ oggpack_reset(&a); m_oggpack_reset(&b); }
      else { int w=rnd()%9; oggpack_write(&a,0,w); m_oggpack_write(&b,0,w); }
      EQ(oggpack_bytes(&a),m_oggpack_bytes(&b),"wbytes"); EQ(oggpack_bits(&a),m_oggpack_bits(&b),"wbits");
      long nb=oggpack_bytes(&a); nchk++;
      if(memcmp(oggpack_get_buffer(&a),m_oggpack_get_buffer(&b),nb)){ printf("MISMATCH write buffer contents\n"); exit(1); }
    }
    oggpack_writeclear(&a); m_oggpack_writeclear(&b);
  }
  printf("%ld comparisons, model == libogg",nchk);
  return 0;
}
