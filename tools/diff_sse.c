/* Differential validation of the M-sse model (CVTSD2SI as used by vorbis_ftoi on x86-64) against the CPU. */
#include <stdio.h>
#include <math.h>
#include <string.h>
#include <stdint.h>
#include <emmintrin.h>
static int model(double f){
  if(f!=f || f>=2147483648.0 || f<-2147483648.5) return (int)0x80000000;
  double r=nearbyint(f);
  if(r>=2147483648.0) return (int)0x80000000;
  return (int)r; }
static int real(double f){ return _mm_cvtsd_si32(_mm_load_sd(&f)); }
static long n=0;
static int cmp(double f){ n++; if(model(f)!=real(f)){ printf("MISMATCH at %.17g: model=%d real=%d\n",f,model(f),real(f)); return 1;} return 0; }
int main(void){
  int bad=0;
  double centers[]={0,0.5,1.5,2.5,127.5,128.5,-128.5,32767.5,-32768.5,32768.5,65535.5,2147483647.5,-2147483648.5,2147483648.0,-2147483648.0,4294967296.0,1e30,-1e30};
  for(unsigned k=0;k<sizeof centers/sizeof centers[0];k++){ double c=centers[k],d=c; for(int i=0;i<2000;i++){ bad|=cmp(d); d=nextafter(d,INFINITY);} d=c; for(int i=0;i<2000;i++){ bad|=cmp(d); d=nextafter(d,-INFINITY);} bad|=cmp(-c); }
  for(int i=-70000;i<=70000;i++){ bad|=cmp(i+0.5); bad|=cmp(i-0.5); bad|=cmp(i+0.49999999999); bad|=cmp((double)(float)(i*0.37f)); }
  bad|=cmp(NAN); bad|=cmp(INFINITY); bad|=cmp(-INFINITY); bad|=cmp(5e-324); bad|=cmp(-5e-324);
  uint64_t s=0x9E3779B97F4A7C15ULL; for(int i=0;i<2000000;i++){ s^=s<<13; s^=s>>7; s^=s<<17; double f; memcpy(&f,&s,8); bad|=cmp(f); float g; uint32_t u=(uint32_t)s; memcpy(&g,&u,4); bad|=cmp((double)g*32768.0); }
  if(bad) return 1; printf("%ld comparisons, model == CVTSD2SI",n); return 0; }
