#!/usr/bin/env python3
"""Regenerates MANIFEST.json from the per-property CLAIM dicts in harness/<id>/jobs.py (single source of truth)."""
import importlib.util, json, os, sys
HERE = os.path.dirname(os.path.dirname(os.path.abspath(__file__)))
sys.path.insert(0, HERE)
NA_DEFAULT = {
 'C06': 'Numerical property of the floating-point path (forward MDCT, psychoacoustic masking, floor fit, VQ, inverse MDCT over 64..8192-point blocks with log/exp/atan/sqrt in the loops): no integer skeleton implies a reconstruction-error bound, and bit-blasting a single 256-point MDCT round trip is beyond the SAT back ends available here (a 64-step integer Bresenham already needs >10 min). Its alignment half reduces to the granule bookkeeping decided under C04. See DESIGN.md section 3 C06 / section 5.',
}
def main():
    ids = ['C%02d' % i for i in range(1, 21)]
    checks, na = [], []
    for pid in ids:
        p = os.path.join(HERE, 'harness', pid, 'jobs.py')
        claim = None
        if os.path.exists(p):
            spec = importlib.util.spec_from_file_location('jobs_' + pid, p); m = importlib.util.module_from_spec(spec); spec.loader.exec_module(m)
            claim = getattr(m, 'CLAIM', None)
        if claim:
            checks.append({'property_id': pid, 'quick_cmd': './check %s --tier quick' % pid, 'thorough_cmd': './check %s --tier thorough' % pid,
                           'evidence_file': 'evidence/%s.json' % pid, 'replay_cmd_template': './check %s --replay {path}' % pid, 'engine': 'cbmc',
                           'level_claimed': {'category': getattr(m, 'LEVEL', 'model_checking'), 'text': claim['text'], 'design_ref': claim.get('design_ref', 'DESIGN.md section 3 ' + pid)},
                           'level_note': claim['note'], 'technique': claim.get('technique', 'bounded symbolic execution of the real C translation units with CBMC 6.11 (SAT back end), unwinding assertions on, witness twins for non-vacuity, native replay of counterexamples')})
        else:
            na.append({'property_id': pid, 'reason': NA_DEFAULT.get(pid, 'harness set not built yet in this revision (planned, see DESIGN.md section 3 %s); nothing is claimed for it' % pid)})
    man = {'version': 1, 'setup_cmd': './tools/setup.sh',
           'hooks': {'guard': 'XIPH_VORBIS_VERIF', 'enable': 'goto-cc/gcc -DXIPH_VORBIS_VERIF on every harness build (no hook is currently needed: statics are reached by #include of the real .c file, callees are cut by source-level renaming regenerated per run)', 'baseline_off_cmd': './tools/baseline_off.sh', 'source_commits': [], 'add_only': True},
           'engines': [{'name': 'cbmc', 'path': '/usr/local/bin/cbmc', 'serves_properties': [c['property_id'] for c in checks], 'kind_free_text': 'CBMC 6.11.0 bounded model checker (MiniSat/kissat back ends) driven by vlib/runner.py; goto-cc compiles /repo/lib/*.c unmodified on every run'}],
           'checks': checks, 'not_applicable': na,
           'notes': 'One technique family: solver-based (CBMC) checking of the real translation units. See DESIGN.md. known_findings.txt lists recorded genuine defects.'}
    json.dump(man, open(os.path.join(HERE, 'MANIFEST.json'), 'w'), indent=1)
    print('MANIFEST: %d checks, %d not_applicable' % (len(checks), len(na)))
main()
