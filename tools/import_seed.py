#!/usr/bin/env python3
"""import_seed.py <srcdir> <name> "<confirm line>" : copy a confirmed seeded change into /verif/seeded/<name>/"""
import json, os, shutil, sys
src, name, line = sys.argv[1], sys.argv[2], sys.argv[3]
dst = os.path.join('/verif/seeded', name)
shutil.rmtree(dst, ignore_errors=True); shutil.copytree(src, dst)
m = json.load(open(os.path.join(dst, 'meta.json')))
m['breaks_property'] = m.get('property')
m['confirmed_by_me'] = {'ran': 'tools/confirm_seed.sh (scratch worktree of /repo HEAD: git apply patch.diff; cmake+ninja build; ctest; build_and_run.sh on the changed tree and on the pristine tree)', 'result': line}
json.dump(m, open(os.path.join(dst, 'meta.json'), 'w'), indent=1)
print('imported', name)
