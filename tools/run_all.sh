#!/bin/bash
# run_all.sh [tier] : run every claimed check on the current tree, summary on stdout, logs under /tmp/run_all
T=${1:-quick}; mkdir -p /tmp/run_all; cd /verif
for id in $(python3 -c "import json;print(' '.join(c['property_id'] for c in json.load(open('MANIFEST.json'))['checks']))"); do
  s=$(date +%s); ./check $id --tier $T > /tmp/run_all/$id.$T.log 2>&1; rc=$?; e=$(date +%s)
  echo "$id rc=$rc $((e-s))s $(tail -1 /tmp/run_all/$id.$T.log)"
done
