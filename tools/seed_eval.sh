#!/bin/bash
# seed_eval.sh <seed-name e.g. C16-m1> [tier] [check ids] [only-glob] : apply seeded/<name>/patch.diff to a scratch worktree of
# /repo HEAD, run the check(s) against it (VERIF_REPO), remove the worktree.  Evidence and scratch output go to /tmp.
S=/verif/seeded/$1; P=$(python3 -c "import json;print(json.load(open('$S/meta.json'))['property'])"); T=${2:-quick}; IDS=${3:-$P}; ONLY=$4
W=/tmp/se_$1; rm -rf $W; git -C /repo worktree prune; git -C /repo worktree add -q --detach $W HEAD || exit 2
( cd $W && git apply "$S/patch.diff" ) || { git -C /repo worktree remove --force $W; exit 2; }
cd /verif; export VERIF_EVIDENCE_DIR=/tmp/seed_evidence/$1 VERIF_REPO=$W VERIF_WORK=/tmp/se_work_$1
for id in $IDS; do
  if [ -n "$ONLY" ]; then ./check $id --tier $T --only "$ONLY" > /tmp/seed_eval_$1_$id.log 2>&1; else ./check $id --tier $T > /tmp/seed_eval_$1_$id.log 2>&1; fi
  echo "$1 check=$id rc=$? $(grep -c '^VIOLATION' /tmp/seed_eval_$1_$id.log) violation-lines"; grep -E "FAILED|INCONCLUSIVE" /tmp/seed_eval_$1_$id.log | cut -c1-200 | head -4; done
git -C /repo worktree remove --force $W; rm -rf /tmp/se_work_$1
