#!/bin/bash
# seed_eval.sh <seed-name e.g. C16-m1> [tier] : apply seeded/<name>/patch.diff to /repo, run the check of its property, undo.
S=/verif/seeded/$1; P=$(python3 -c "import json;print(json.load(open('$S/meta.json'))['property'])"); T=${2:-quick}
cd /verif; git -C /repo diff --quiet || { echo "/repo dirty"; exit 3; }
git -C /repo apply "$S/patch.diff" || exit 2
IDS=${3:-$P}
export VERIF_EVIDENCE_DIR=/tmp/seed_evidence
for id in $IDS; do ./check $id --tier $T > /tmp/seed_eval_$1_$id.log 2>&1; echo "$1 check=$id rc=$? $(grep -c '^VIOLATION' /tmp/seed_eval_$1_$id.log) violation-lines"; grep -E "^VIOLATION|FAILED|INCONCLUSIVE" /tmp/seed_eval_$1_$id.log | head -6; done
git -C /repo checkout -- .
