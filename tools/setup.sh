#!/bin/sh
# Offline setup: validate the environment models against the real libogg / the CPU (no network, gcc + libogg.a only).
set -e
cd "$(dirname "$0")/.."
for t in cbmc goto-cc gcc python3; do command -v $t >/dev/null || { echo "missing tool $t"; exit 1; }; done
python3 tools/validate_models.py
