#!/usr/bin/env python3
"""Differential validation of the environment models against the real components (run by setup_cmd and by
the checks that use them).  Prints one line per model; exit 1 on any disagreement."""
import os, subprocess, sys, tempfile
HERE = os.path.dirname(os.path.dirname(os.path.abspath(__file__)))
def build_run(src, extra, name):
    d = tempfile.mkdtemp(prefix='vv_', dir='/var/tmp')
    exe = os.path.join(d, name)
    try:
        r = subprocess.run(['gcc', '-O1', '-w', '-I' + os.path.join(HERE, 'models'), '-I' + os.path.join(HERE, 'harness/common'), src, '-o', exe] + extra, capture_output=True, text=True)
        if r.returncode: return False, r.stderr[-2000:]
        r = subprocess.run([exe], capture_output=True, text=True, timeout=600)
        return r.returncode == 0, (r.stdout + r.stderr)[-600:].strip()
    finally:
        subprocess.run(['rm', '-rf', d])
def main():
    ok = True
    for src, extra, name in [('tools/diff_oggpack.c', ['-logg'], 'diff_oggpack'), ('tools/diff_sse.c', ['-lm'], 'diff_sse')]:
        p = os.path.join(HERE, src)
        if not os.path.exists(p): continue
        good, msg = build_run(p, extra, name)
        print('%s: %s %s' % (name, 'OK' if good else 'MISMATCH', msg))
        ok &= good
    return 0 if ok else 1
if __name__ == '__main__': sys.exit(main())
