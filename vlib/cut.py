"""Source-level compositional cut.

make_cut(src, funcs, out): copy the real translation unit `src` to `out`, renaming the
*definition* of every function in `funcs` to `<name>__real` and leaving a prototype of the
original name in its place.  All call sites inside the unit keep calling `<name>`, which the
harness then defines itself (a contract stub).  The same rewritten file is used by goto-cc
(CBMC) and by gcc (native replay), so a counterexample found with a cut replays natively with
the same cut.  The file is regenerated from the current /repo source on every run.
"""
import re


def _strip_comments_keep_layout(text):
    # replace comment and string contents by spaces so that brace/paren matching is not confused
    out = []
    i, n = 0, len(text)
    while i < n:
        c = text[i]
        if text.startswith('/*', i):
            j = text.find('*/', i + 2)
            j = n if j < 0 else j + 2
            out.append(''.join(ch if ch == '\n' else ' ' for ch in text[i:j]))
            i = j
        elif text.startswith('//', i):
            j = text.find('\n', i)
            j = n if j < 0 else j
            out.append(' ' * (j - i))
            i = j
        elif c == '"' or c == "'":
            q = c
            j = i + 1
            while j < n and text[j] != q:
                j += 2 if text[j] == '\\' else 1
            j = min(j + 1, n)
            out.append(q + ' ' * (j - i - 2) + q if j - i >= 2 else text[i:j])
            i = j
        else:
            out.append(c)
            i += 1
    return ''.join(out)


def find_definition(text, name):
    """return (start_of_decl_specifiers, name_start, name_end, open_brace_index) or None"""
    clean = _strip_comments_keep_layout(text)
    # brace depth per position
    depth = 0
    depths = []
    for ch in clean:
        depths.append(depth)
        if ch == '{':
            depth += 1
        elif ch == '}':
            depth -= 1
    for m in re.finditer(r'\b' + re.escape(name) + r'\s*\(', clean):
        if depths[m.start()] != 0:
            continue
        # match parens
        i = m.end() - 1
        d = 0
        while i < len(clean):
            if clean[i] == '(':
                d += 1
            elif clean[i] == ')':
                d -= 1
                if d == 0:
                    break
            i += 1
        j = i + 1
        while j < len(clean) and clean[j] in ' \t\r\n':
            j += 1
        if j < len(clean) and clean[j] == '{':
            # start of declaration: after previous ';' or '}' or preprocessor line at depth 0
            k = m.start() - 1
            while k >= 0 and clean[k] not in ';}':
                k -= 1
            start = k + 1
            # skip preprocessor lines / blank space at the beginning
            seg = clean[start:m.start()]
            lines = seg.split('\n')
            off = 0
            keep_from = 0
            for ln in lines:
                if ln.strip().startswith('#') or ln.strip() == '':
                    off += len(ln) + 1
                    keep_from = off
                else:
                    break
            return (start + keep_from, m.start(), m.start() + len(name), j)
    return None


def make_cut(src_path, funcs, out_path):
    text = open(src_path, encoding='latin-1').read()
    missing = []
    for f in funcs:
        loc = find_definition(text, f)
        if loc is None:
            missing.append(f)
            continue
        s, ns, ne, ob = loc
        header = text[s:ob].rstrip()
        proto = header + ';\n'
        renamed = text[s:ns] + f + '__real' + text[ne:ob]
        text = text[:s] + proto + renamed + text[ob:]
    with open(out_path, 'w', encoding='latin-1') as fh:
        fh.write(text)
    return missing
