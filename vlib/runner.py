"""Runner: build each harness from /repo's current source with goto-cc, decide it with CBMC,
check the reachability witness twin, replay counterexamples natively, write evidence."""
import fnmatch
import threading
import hashlib
import json
import os
import re
import resource
import shutil
import signal
import subprocess
import sys
import time
from concurrent.futures import ThreadPoolExecutor

from . import cut as cutmod

VERIF = os.path.dirname(os.path.dirname(os.path.abspath(__file__)))
REPO = os.environ.get('VERIF_REPO', '/repo')
GUARD = 'XIPH_VORBIS_VERIF'


class Job:
    def __init__(self, name, src, defs=(), cuts=None, unwind=2, unwindset=(), flags=(), checks=(),
                 timeout=None, mem_gb=None, witness=True, witnesses=None, known=(), replay='native',
                 native_srcs=(), native_link=(), functions=(), bounds='', models=(), outside='',
                 solver=None, object_bits=None, slice=False, fs_array=300, expect_fail_desc=None, wdefs=(),
                 witness_unwind=None, weight=1, tags=(), mem_est=None):
        self.name = name
        self.src = src                    # path relative to /verif/harness
        self.defs = list(defs)
        self.cuts = cuts or {}            # {'vorbisfile.c': ['_get_next_page', ...]}
        self.unwind = unwind
        self.unwindset = list(unwindset)  # (function, regex-on-loop-head-line | None, bound)
        self.flags = list(flags)
        self.checks = set(checks)         # subset of {'leak','sovf','povf','conv','fdiv'}
        self.timeout = timeout
        self.mem_gb = mem_gb
        self.witness = witness
        self.witnesses = witnesses        # list of witness messages that must all be reached
        self.known = list(known)          # ids in known_findings.txt this job is expected to exhibit
        self.replay = replay
        self.native_srcs = list(native_srcs)
        self.native_link = list(native_link)
        self.functions = list(functions)
        self.bounds = bounds
        self.models = list(models)
        self.outside = outside
        self.solver = solver
        self.object_bits = object_bits
        self.slice = slice
        self.fs_array = fs_array
        self.wdefs = list(wdefs)
        self.witness_unwind = witness_unwind
        self.weight = weight
        self.tags = list(tags)
        self.mem_est = mem_est            # expected peak GB, for the memory-aware scheduler (default: mem_gb/3 or 3)


def sh(cmd, timeout=None, mem_gb=None, cwd=None, env=None):
    def pre():
        os.setsid()
        if mem_gb:
            lim = int(mem_gb * (1 << 30))
            resource.setrlimit(resource.RLIMIT_AS, (lim, lim))
    t0 = time.time()
    p = subprocess.Popen(cmd, stdout=subprocess.PIPE, stderr=subprocess.PIPE, cwd=cwd, env=env, preexec_fn=pre)
    try:
        out, err = p.communicate(timeout=timeout)
        to = False
    except subprocess.TimeoutExpired:
        try:
            os.killpg(p.pid, signal.SIGKILL)
        except Exception:
            pass
        out, err = p.communicate()
        to = True
    ru = resource.getrusage(resource.RUSAGE_CHILDREN)
    return {'rc': p.returncode, 'out': out.decode('utf-8', 'replace'), 'err': err.decode('utf-8', 'replace'),
            'timeout': to, 'wall': time.time() - t0}


def sha256(path):
    h = hashlib.sha256()
    with open(path, 'rb') as f:
        h.update(f.read())
    return h.hexdigest()


def load_known():
    res = []
    p = os.path.join(VERIF, 'known_findings.txt')
    if not os.path.exists(p):
        return res
    for ln in open(p):
        ln = ln.strip()
        if not ln or ln.startswith('#'):
            continue
        kind, _, rest = ln.partition(':')
        kind = kind.strip()
        ent = {'kind': kind, 'raw': ln}
        # key=value tokens; check="..." may contain spaces
        for m in re.finditer(r'(\w+)=("([^"]*)"|\S+)', rest):
            ent[m.group(1)] = m.group(3) if m.group(3) is not None else m.group(2)
        res.append(ent)
    return res


class Runner:
    def __init__(self, pid, tier, jobs, seed=0, parallel=None, keep=False, level='model_checking',
                 extra_cov=None, assumptions=(), extra_results=()):
        self.pid = pid
        self.tier = tier
        self.jobs = jobs
        self.seed = seed
        self.parallel = parallel or int(os.environ.get('VERIF_JOBS', '14'))
        self.keep = keep
        self.level = level
        self.extra_cov = extra_cov or {}
        self.assumptions = list(assumptions)
        self.extra_results = list(extra_results)
        self.work = os.path.join(os.environ.get('VERIF_WORK', os.path.join(VERIF, '.work')), '%s.%s.%d' % (pid, tier, os.getpid()))
        self.replay_dir = os.path.join(VERIF, 'replay_out', pid)
        self.known = load_known()
        self.mem_total = float(os.environ.get('VERIF_MEM_TOTAL_GB', '48'))
        self.mem_free = self.mem_total
        self.mem_cv = threading.Condition()
        self.def_timeout = int(os.environ.get('VERIF_JOB_TIMEOUT', '900' if tier == 'quick' else '3600'))
        self.def_mem = float(os.environ.get('VERIF_JOB_MEM_GB', '12' if tier == 'quick' else '24'))

    # ------------------------------------------------------------------ build
    def jobdir(self, job, mode):
        d = os.path.join(self.work, job.name + ('.w' if mode == 'witness' else ''))
        os.makedirs(d, exist_ok=True)
        return d

    def prepare_cuts(self, job, d):
        missing = []
        for fname, funcs in job.cuts.items():
            src = os.path.join(REPO, 'lib', fname)
            missing += cutmod.make_cut(src, funcs, os.path.join(d, fname))
        return missing

    def includes(self, d):
        return ['-I' + d, '-I' + os.path.join(REPO, 'include'), '-I' + os.path.join(REPO, 'lib'),
                '-I' + os.path.join(VERIF, 'harness', 'common'), '-I' + os.path.join(VERIF, 'models'),
                '-I' + os.path.join(VERIF, 'harness')]

    def compile_goto(self, job, d, mode):
        gb = os.path.join(d, 'h.gb')
        defs = ['-D' + GUARD] + job.defs + (['-DWITNESS'] + job.wdefs if mode == 'witness' else [])
        cmd = ['goto-cc'] + self.includes(d) + defs + [os.path.join(VERIF, 'harness', job.src), '-o', gb,
                                                         '--function', 'harness']
        r = sh(cmd, timeout=300)
        return gb, r, cmd

    def resolve_unwindset(self, job, gb):
        if not job.unwindset:
            return [], []
        r = sh(['cbmc', '--show-loops', '--json-ui', gb], timeout=120)
        loops = []
        try:
            for m in json.loads(r['out']):
                if 'loops' in m:
                    loops = m['loops']
        except Exception:
            pass
        cache = {}
        resolved, unmatched = [], []
        for spec in job.unwindset:
            if isinstance(spec, str):
                resolved.append(spec)
                continue
            func, rx, bound = spec
            hit = False
            for lp in loops:
                sl = lp.get('sourceLocation', {})
                if sl.get('function') != func:
                    continue
                if rx is not None:
                    f = sl.get('file', '')
                    if not os.path.isabs(f):
                        f = os.path.join(sl.get('workingDirectory', ''), f)
                    if f not in cache:
                        try:
                            cache[f] = open(f, encoding='latin-1').read().split('\n')
                        except Exception:
                            cache[f] = []
                    ln = int(sl.get('line', '0')) - 1
                    text = cache[f][ln] if 0 <= ln < len(cache[f]) else ''
                    if not re.search(rx, text):
                        continue
                resolved.append('%s:%d' % (lp['name'], bound))
                hit = True
            if not hit:
                unmatched.append('%s/%s' % (func, rx))
        return resolved, unmatched

    def cbmc_cmd(self, job, gb, mode, unwindset):
        cmd = ['cbmc', gb, '--function', 'harness', '--json-ui', '--drop-unused-functions', '--no-malloc-may-fail']
        uw = job.unwind
        if mode == 'witness' and job.witness_unwind:
            uw = job.witness_unwind
        cmd += ['--unwind', str(uw)]
        if unwindset:
            cmd += ['--unwindset', ','.join(unwindset)]
        if mode == 'witness':
            cmd += ['--no-standard-checks', '--no-unwinding-assertions']
        else:
            cmd += ['--unwinding-assertions', '--trace', '--verbosity', '8']
            if 'sovf' not in job.checks:
                cmd += ['--no-signed-overflow-check']
            if 'povf' in job.checks:
                cmd += ['--pointer-overflow-check']
            if 'conv' in job.checks:
                cmd += ['--conversion-check']
            if 'fdiv' in job.checks:
                cmd += ['--float-div-by-zero-check']
            if 'leak' in job.checks:
                cmd += ['--memory-leak-check']
        if job.object_bits:
            cmd += ['--object-bits', str(job.object_bits)]
        if job.fs_array:
            cmd += ['--max-field-sensitivity-array-size', str(job.fs_array)]
        if job.slice:
            cmd += ['--slice-formula']
        if job.solver == 'kissat':
            cmd += ['--external-sat-solver', 'kissat']
        elif job.solver == 'cadical':
            cmd += ['--sat-solver', 'cadical']
        cmd += job.flags
        return cmd

    @staticmethod
    def parse_cbmc(out):
        res = {'status': None, 'props': [], 'errors': [], 'stats': {}}
        try:
            data = json.loads(out)
        except Exception:
            # try to repair truncated output
            res['errors'].append('unparseable cbmc output')
            return res
        for m in data:
            if 'result' in m:
                res['props'] = m['result']
            elif 'cProverStatus' in m:
                res['status'] = m['cProverStatus']
            elif m.get('messageType') == 'WARNING' and 'no body for' in m.get('messageText', ''):
                res.setdefault('nobody', []).append(m.get('messageText'))
            elif m.get('messageType') == 'ERROR':
                res['errors'].append(m.get('messageText', ''))
            elif m.get('messageType') == 'STATUS-MESSAGE':
                t = m.get('messageText', '')
                mm = re.match(r'Runtime (Symex|Solver|decision procedure|Convert SSA): ([0-9.e+-]+)s', t)
                if mm:
                    res['stats'][mm.group(1)] = res['stats'].get(mm.group(1), 0) + float(mm.group(2))
                mm = re.match(r'size of program expression: (\d+) steps', t)
                if mm:
                    res['stats']['ssa_steps'] = int(mm.group(1))
                mm = re.match(r'(\d+) variables, (\d+) clauses', t)
                if mm:
                    res['stats']['vars'] = int(mm.group(1))
                    res['stats']['clauses'] = int(mm.group(2))
                mm = re.match(r'Generated (\d+) VCC\(s\), (\d+) remaining', t)
                if mm:
                    res['stats']['vccs'] = int(mm.group(1))
                    res['stats']['vccs_remaining'] = int(mm.group(2))
        return res

    @staticmethod
    def nd_values(trace):
        """Values drawn by ND_*() in execution order.  Every draw is a function-call step to ND_<type> (kept by the
        trace even under --slice-formula); the value is the assignment to __ndv_<type> inside it.  A draw whose value
        was sliced away is irrelevant to the failing obligation and unconstrained by any assume: it replays as 0."""
        kinds = {'__ndv_i32': 'i32', '__ndv_u32': 'u32', '__ndv_i64': 'i64', '__ndv_u64': 'u64',
                 '__ndv_u8': 'u8', '__ndv_f32': 'f32', '__ndv_f64': 'f64'}
        fk = {'ND_int': ('i32', 32), 'ND_uint': ('u32', 32), 'ND_long': ('i64', 64), 'ND_ulong': ('u64', 64),
              'ND_uchar': ('u8', 8), 'ND_float': ('f32', 32), 'ND_double': ('f64', 64)}
        vals = []
        for s in trace or []:
            st = s.get('stepType')
            if st == 'function-call':
                fn = (s.get('function') or {}).get('displayName')
                if fn in fk:
                    vals.append([fk[fn][0], '0' * fk[fn][1], '0(sliced)'])
            elif st == 'assignment' and not s.get('hidden') and s.get('lhs') in kinds:
                v = s.get('value', {})
                if vals and vals[-1][0] == kinds[s['lhs']]:
                    vals[-1][1] = v.get('binary', vals[-1][1])
                    vals[-1][2] = v.get('data')
                else:
                    vals.append([kinds[s['lhs']], v.get('binary', '0'), v.get('data')])
        return [tuple(v) for v in vals]

    # ------------------------------------------------------------------ native replay
    def native_replay(self, job, d, vals, tag):
        exe = os.path.join(d, 'replay_' + tag)
        ndf = os.path.join(d, 'nd_' + tag + '.txt')
        with open(ndf, 'w') as f:
            for k, b, _ in vals:
                f.write('%s %s\n' % (k, b))
        srcs = [os.path.join(VERIF, 'harness', job.src)]
        for s in job.native_srcs:
            srcs.append(s if os.path.isabs(s) else os.path.join(REPO, 'lib', s))
        cmd = ['gcc', '-DREPLAY', '-D' + GUARD, '-g', '-O0', '-w', '-fsanitize=address,undefined',
               '-fno-sanitize-recover=undefined', '-fno-omit-frame-pointer', '-ffunction-sections', '-fdata-sections', '-no-pie',
               '-Wl,--gc-sections', '-Wl,--unresolved-symbols=ignore-all'] + self.includes(d) + job.defs + srcs + \
              ['-o', exe] + job.native_link + ['-lm']
        r = sh(cmd, timeout=300)
        if r['rc'] != 0:
            return {'outcome': 'replay-build-failed', 'detail': r['err'][-2000:], 'nd_file': ndf}
        env = dict(os.environ)
        env['VERIF_ND_FILE'] = ndf
        env['ASAN_OPTIONS'] = 'exitcode=12:detect_leaks=%d:abort_on_error=0' % (1 if 'leak' in job.checks else 0)
        env['UBSAN_OPTIONS'] = 'print_stacktrace=1'
        r = sh([exe], timeout=20, env=env)
        text = (r['out'] + r['err'])[-4000:]
        if r['timeout']:
            oc = 'timeout'
        elif 'REPLAY-ASSUME-FAILED' in r['out']:
            oc = 'assume-failed'
        elif 'REPLAY-DESYNC' in r['out']:
            oc = 'desync'
        elif 'REPLAY-CHECK-FAILED' in r['out']:
            oc = 'check-failed'
        elif r['rc'] == 12 or 'AddressSanitizer' in r['err'] or 'LeakSanitizer' in r['err']:
            oc = 'sanitizer'
        elif 'runtime error' in r['err']:
            oc = 'ubsan'
        elif r['rc'] is not None and r['rc'] < 0:
            oc = 'signal%d' % (-r['rc'])
        elif r['rc'] == 0:
            oc = 'clean'
        else:
            oc = 'exit%s' % r['rc']
        return {'outcome': oc, 'detail': text, 'nd_file': ndf, 'cmd': ' '.join(cmd)}

    # ------------------------------------------------------------------ one task
    def run_task(self, job, mode):
        need = min(job.mem_est or ((job.mem_gb or 9) / 3.0), self.mem_total)
        with self.mem_cv:
            while self.mem_free < need:
                self.mem_cv.wait()
            self.mem_free -= need
        try:
            return self.run_task_inner(job, mode)
        finally:
            with self.mem_cv:
                self.mem_free += need
                self.mem_cv.notify_all()

    def run_task_inner(self, job, mode):
        t0 = time.time()
        d = self.jobdir(job, mode)
        rec = {'job': job.name, 'mode': mode, 'verdict': None, 'notes': []}
        missing = self.prepare_cuts(job, d)
        if missing:
            rec['verdict'] = 'harness-error'
            rec['notes'].append('cut target(s) not found in source: ' + ','.join(missing))
            return rec
        gb, r, ccmd = self.compile_goto(job, d, mode)
        if r['rc'] != 0 or not os.path.exists(gb):
            rec['verdict'] = 'build-error'
            rec['notes'].append(r['err'][-3000:])
            return rec
        uws, unmatched = self.resolve_unwindset(job, gb)
        if unmatched:
            rec['notes'].append('unwindset entries without a matching loop (default unwind applies): ' + ';'.join(unmatched))
        cmd = self.cbmc_cmd(job, gb, mode, uws)
        rec['cmd'] = ' '.join(cmd)
        rec['unwindset'] = uws
        r = sh(cmd, timeout=job.timeout or self.def_timeout, mem_gb=job.mem_gb or self.def_mem)
        rec['wall_s'] = round(time.time() - t0, 2)
        with open(os.path.join(d, 'cbmc.json'), 'w') as f:
            f.write(r['out'])
        if r['timeout']:
            rec['verdict'] = 'timeout'
            return rec
        p = self.parse_cbmc(r['out'])
        rec['stats'] = p['stats']
        if p.get('nobody'):
            rec['notes'].append('functions without body (havoc by CBMC): ' + '; '.join(sorted(set(p['nobody'])))[:1500])
        if p['status'] is None or p['errors'] and not p['props']:
            rec['verdict'] = 'solver-error'
            rec['notes'].append('; '.join(p['errors'])[:2000] + ' rc=%s ' % r['rc'] + r['err'][-500:])
            return rec
        props = p['props']
        rec['n_props'] = len(props)
        failed = [q for q in props if q.get('status') == 'FAILURE']
        undecided = [q for q in props if q.get('status') not in ('SUCCESS', 'FAILURE')]
        if undecided and failed:
            rec['notes'].append('%d obligations left undecided by cbmc after the failures below' % len(undecided))
        if (undecided and not failed) or (p['status'] == 'error' and not failed):
            rec['verdict'] = 'solver-error'
            rec['notes'].append('cbmc status=%s; %s' % (p['status'], '; '.join(p['errors'])[:600]))
            return rec
        rec['functions'] = sorted({q.get('sourceLocation', {}).get('function', '?') for q in props})
        if mode == 'witness':
            reached = [q['description'] for q in failed if q.get('description', '').startswith('witness')]
            rec['witness_reached'] = reached
            want = job.witnesses
            if want:
                miss = [w for w in want if not any(w in x for x in reached)]
                rec['verdict'] = 'ok' if not miss else 'vacuous'
                if miss:
                    rec['notes'].append('witness not reached: ' + ','.join(miss))
            else:
                rec['verdict'] = 'ok' if reached else 'vacuous'
            return rec
        rec['n_failed'] = len(failed)
        rec['failed'] = []
        if not failed:
            rec['verdict'] = 'pass'
            return rec
        # failures: replay each distinct failing property natively (first 6)
        for q in failed[:8]:
            fr = {'property': q['property'], 'description': q.get('description', ''),
                  'location': '%s:%s' % (q.get('sourceLocation', {}).get('file', '?'), q.get('sourceLocation', {}).get('line', '?')),
                  'function': q.get('sourceLocation', {}).get('function', '?')}
            trace = q.get('trace')
            if trace is None and job.slice:
                pass
            vals = self.nd_values(trace)
            fr['inputs'] = [(k, dd) for k, b, dd in vals][:200]
            if 'replay' not in fr:
                if job.replay == 'native':
                    tag = re.sub(r'[^A-Za-z0-9_]', '_', q['property'])
                    fr['replay'] = self.native_replay(job, d, vals, tag)
                else:
                    fr['replay'] = {'outcome': 'not-replayable', 'detail': job.replay}
            rec['failed'].append(fr)
        for q in failed[8:]:
            rec['failed'].append({'property': q['property'], 'description': q.get('description', ''),
                                  'function': q.get('sourceLocation', {}).get('function', '?'),
                                  'location': '%s:%s' % (q.get('sourceLocation', {}).get('file', '?'), q.get('sourceLocation', {}).get('line', '?')),
                                  'replay': {'outcome': 'not-attempted'}})
        rec['verdict'] = 'fail'
        return rec

    # ------------------------------------------------------------------ known findings
    def match_known(self, job, fr):
        for k in self.known:
            if k.get('kind') != 'finding' or k.get('property') != self.pid:
                continue
            if not fnmatch.fnmatch(job.name, k.get('harness', '*')):
                continue
            if k.get('check') and not re.search(k['check'], fr['description']):
                continue
            if k.get('at') and k['at'] not in fr.get('location', '') and k['at'] != fr.get('function'):
                continue
            return k
        return None

    # ------------------------------------------------------------------ main
    def run(self, only=None):
        t0 = time.time()
        shutil.rmtree(self.work, ignore_errors=True)
        os.makedirs(self.work, exist_ok=True)
        jobs = [j for j in self.jobs if not only or any(fnmatch.fnmatch(j.name, o) for o in only)]
        tasks = []
        for j in jobs:
            tasks.append((j, 'main'))
            if j.witness:
                tasks.append((j, 'witness'))
        # heavier first
        tasks.sort(key=lambda t: -t[0].weight)
        results = {}
        with ThreadPoolExecutor(max_workers=self.parallel) as ex:
            futs = {ex.submit(self.run_task, j, m): (j, m) for j, m in tasks}
            for f in futs:
                j, m = futs[f]
                try:
                    results[(j.name, m)] = f.result()
                except Exception as e:  # pragma: no cover
                    results[(j.name, m)] = {'job': j.name, 'mode': m, 'verdict': 'runner-exception', 'notes': [repr(e)]}
        violations, inconclusive, known_lines = [], [], []
        harness_recs = []
        nontrivial = 0
        evaluations = 0
        samples = []
        for j in jobs:
            rm = results[(j.name, 'main')]
            rw = results.get((j.name, 'witness'))
            line = '[%s] %-28s %-8s props=%s failed=%s wall=%ss' % (self.pid, j.name, rm['verdict'], rm.get('n_props', '-'),
                                                                    rm.get('n_failed', '-'), rm.get('wall_s', '-'))
            if rw is not None:
                line += ' witness=%s' % rw['verdict']
            print(line)
            for n in rm.get('notes', []) + (rw.get('notes', []) if rw else []):
                print('      note: ' + n.replace('\n', '\n            ')[:3000])
            ok_witness = (rw is None) or rw['verdict'] == 'ok'
            if rm['verdict'] == 'pass':
                evaluations += rm.get('n_props', 0)
                if ok_witness and rw is not None:
                    nontrivial += 1
                if not ok_witness:
                    inconclusive.append('%s: witness twin %s' % (j.name, rw['verdict']))
            elif rm['verdict'] == 'fail':
                evaluations += rm.get('n_props', 0)
                unexplained = []
                for fr in rm['failed']:
                    k = self.match_known(j, fr)
                    oc = fr.get('replay', {}).get('outcome')
                    if k is not None:
                        kl = 'KNOWN-FINDING: property=%s %s [%s: %s; replay=%s]' % (self.pid, k['raw'].split(' ', 2)[-1] if False else k.get('id', ''), j.name, fr['description'], oc)
                        known_lines.append((k, kl))
                        continue
                    unexplained.append(fr)
                if unexplained:
                    os.makedirs(self.replay_dir, exist_ok=True)
                    rp = os.path.join(self.replay_dir, j.name + '.json')
                    with open(rp, 'w') as f:
                        json.dump({'property': self.pid, 'job': j.name, 'tier': self.tier, 'src': j.src, 'defs': j.defs,
                                   'cbmc_cmd': rm.get('cmd'), 'failures': unexplained}, f, indent=1)
                    reproduced = [fr for fr in unexplained if fr.get('replay', {}).get('outcome') in
                                  ('check-failed', 'sanitizer', 'ubsan', 'timeout') or str(fr.get('replay', {}).get('outcome', '')).startswith('signal')]
                    unwind_only = all('.unwind.' in fr['property'] or 'unwinding assertion' in fr['description'] for fr in unexplained)
                    notrep = [fr for fr in unexplained if fr not in reproduced]
                    for fr in unexplained[:12]:
                        print('      FAILED %s @%s: %s  [replay: %s]' % (fr['property'], fr.get('location'), fr['description'], fr.get('replay', {}).get('outcome')))
                    if reproduced or (j.replay != 'native' and not unwind_only):
                        violations.append((j, rp))
                    elif unwind_only:
                        inconclusive.append('%s: unwinding assertion(s) failed — bound too small for this source (%s)' % (j.name, ','.join(fr['property'] for fr in unexplained[:4])))
                    else:
                        # counterexample did not reproduce natively
                        ocs = sorted({str(fr.get('replay', {}).get('outcome')) for fr in notrep})
                        if any(o in ('not-attempted',) for o in ocs) and not [o for o in ocs if o not in ('not-attempted',)]:
                            violations.append((j, rp))
                        else:
                            inconclusive.append('%s: counterexample did not replay natively (%s) — MODEL-ERROR, see %s' % (j.name, ','.join(ocs), rp))
            else:
                inconclusive.append('%s: %s' % (j.name, rm['verdict']))
            hrec = {'name': j.name, 'source': 'harness/' + j.src, 'defines': j.defs, 'verdict': rm['verdict'],
                    'functions_under_test': j.functions, 'functions_encoded': rm.get('functions', []),
                    'cuts': j.cuts, 'bounds': j.bounds, 'unwind_default': j.unwind, 'unwindset': rm.get('unwindset', []),
                    'models': j.models, 'outside_claim': j.outside, 'obligations': rm.get('n_props', 0),
                    'obligations_failed': rm.get('n_failed', 0), 'stats': rm.get('stats', {}), 'wall_s': rm.get('wall_s'),
                    'witness': (rw or {}).get('verdict'), 'witness_reached': (rw or {}).get('witness_reached', []),
                    'checks_enabled': sorted(j.checks), 'sliced': j.slice, 'cbmc_cmd': rm.get('cmd')}
            harness_recs.append(hrec)
            if rw and rw.get('witness_reached') and len(samples) < 40:
                samples.append({'harness': j.name, 'reached': rw['witness_reached'][:6], 'bounds': j.bounds})
        for er in self.extra_results:
            print('[%s] %-28s %-8s queries=%s  %s' % (self.pid, er['name'], er['verdict'], er.get('queries'), er.get('detail', '')))
            evaluations += er.get('queries', 0)
            if er['verdict'] == 'pass' and er.get('queries', 0) > 0:
                nontrivial += 1
                if er.get('sample'):
                    samples.append({'harness': er['name'], 'sample': er['sample']})
            elif er['verdict'] == 'fail':
                os.makedirs(self.replay_dir, exist_ok=True)
                rp = os.path.join(self.replay_dir, er['name'] + '.json')
                with open(rp, 'w') as f:
                    json.dump({'property': self.pid, 'job': er['name'], 'tier': self.tier, 'failures': er['failures']}, f, indent=1)
                for fr in er['failures'][:8]:
                    print('      FAILED %s: %s' % (fr['property'], fr['description']))
                violations.append((Job(er['name'], ''), rp))
            else:
                inconclusive.append('%s: %s' % (er['name'], er.get('detail')))
            harness_recs.append({'name': er['name'], 'verdict': er['verdict'], 'obligations': er.get('queries', 0), 'detail': er.get('detail'), 'wall_s': er.get('wall_s'), 'stats': {}})
        # known findings printed once each
        seen = set()
        for k, kl in known_lines:
            if k['raw'] in seen:
                continue
            seen.add(k['raw'])
            rest = re.sub(r'^property=\S+\s*', '', k['raw'].split(':', 1)[1].strip())
            print(('KNOWN-FINDING: property=%s %s' % (self.pid, rest))[:400])
        for j, rp in violations:
            print('VIOLATION property=%s replay=%s' % (self.pid, rp))
        for s in inconclusive:
            print('INCONCLUSIVE: ' + s)
        wall = time.time() - t0
        # source hashes
        srcs = {}
        for j in jobs:
            for fn in set(re.findall(r'#include\s+"([\w/.-]+\.[ch])"', open(os.path.join(VERIF, 'harness', j.src)).read())):
                p = os.path.join(REPO, 'lib', fn)
                if os.path.exists(p) and fn not in srcs:
                    srcs[fn] = sha256(p)
        cov = {'evaluations': evaluations, 'distinct_nontrivial': nontrivial,
               'rule': 'one evaluation = one CBMC proof obligation (assertion, memory-safety or unwinding obligation) decided by the SAT back end over all inputs within the bounds; a harness is non-trivial iff all its obligations were discharged AND its WITNESS twin (same harness, assertion false at the interesting program point) was reported reachable by the solver',
               'samples': samples or [{'note': 'no witness samples (no job selected)'}],
               'harnesses': harness_recs,
               'trusted_base': sorted({m for j in jobs for m in j.models}),
               'repo_sources_sha256': srcs, 'repo': REPO,
               'known_findings_observed': [k['raw'] for k, _ in known_lines],
               'inconclusive': inconclusive,
               'solver_time_total_s': round(sum((h['stats'] or {}).get('decision procedure', 0) for h in harness_recs), 2),
               'symex_time_total_s': round(sum((h['stats'] or {}).get('Symex', 0) for h in harness_recs), 2),
               'queries_discharged': evaluations}
        cov.update(self.extra_cov)
        if self.level == 'translation_validation':
            cov['programs'] = nontrivial
            cov['disagreements_checked'] = sum(1 for j, _ in violations)
        ev = {'property_id': self.pid, 'tier': self.tier, 'seed': self.seed, 'level': self.level, 'coverage': cov,
              'assumptions': self.assumptions + ['cbmc 6.11.0 semantics of C; --no-malloc-may-fail (allocation failure out of scope); bounds listed per harness'],
              'wall_s': round(wall, 2), 'violations': len(violations)}
        if not only:
            evd = os.environ.get('VERIF_EVIDENCE_DIR', os.path.join(VERIF, 'evidence'))
            os.makedirs(evd, exist_ok=True)
            with open(os.path.join(evd, self.pid + '.json'), 'w') as f:
                json.dump(ev, f, indent=1)
        else:
            with open(os.path.join(self.work, 'evidence.partial.json'), 'w') as f:
                json.dump(ev, f, indent=1)
        if not self.keep and not violations and not inconclusive:
            shutil.rmtree(self.work, ignore_errors=True)
        print('[%s] tier=%s jobs=%d obligations=%d nontrivial=%d violations=%d inconclusive=%d wall=%.1fs' % (
            self.pid, self.tier, len(jobs), evaluations, nontrivial, len(violations), len(inconclusive), wall))
        if violations:
            return 1
        if inconclusive:
            return 2
        return 0
